#!/bin/sh
# usage: soak.sh <tier> <seed>...   runs the three checks on the tree under /repo (or $VERIF_REPO) for each master seed
cd "$(dirname "$0")/.." || exit 2
tier=$1; shift
for seed in "$@"; do
  for p in C12 C14 C16; do
    start=$(date +%s)
    VERIF_SEED=$seed VERIF_REPLAY_DIR=/tmp/soak-replays ./check $p --tier $tier --no-evidence > /tmp/soak-$tier-$seed-$p.log 2>&1
    rc=$?
    echo "seed=$seed $p tier=$tier exit=$rc wall=$(( $(date +%s) - start ))s $(grep -c VIOLATION /tmp/soak-$tier-$seed-$p.log) violations $(grep -c HARNESS-ERROR /tmp/soak-$tier-$seed-$p.log) harness-errors"
  done
done
echo SOAKDONE
