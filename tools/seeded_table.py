#!/usr/bin/env python3
"""Print the detection matrix of DESIGN.md section 13.3 from seeded/*/meta.json."""
import json, os, glob
NEEDS = {
 "c14-a": ("serializer writes an atom's `mass`/`rad` pair from a set intersection", "an atom carrying both mass and radical; two processes with different hash seeds"),
 "c14-b": ("per-thread reused parser listener, cleared only in `to_graph()`", "a listener-level reject (self-loop, duplicate attribute) followed by another parse in the same thread"),
 "c14-c": ("one process-wide ANTLR lexer/parser re-armed per call", "two threads inside `graph_from_tucan` at once, switch between arming and the end of the parse"),
 "c14-d": ("`graph_from_file` cache keyed by (device, inode), validated by (size, mtime_ns)", "a file overwritten in place with another molecule of the same byte length and an equal (coarse or preserved) mtime, read before and after"),
 "c14-e": ("`lru_cache` on the writer's coordinate formatting (`0.0`, `-0.0`, `0` share a key)", "two molecules written in one process with numerically equal positions of different zero sign / type"),
 "c14-f": ("V2000 property-line table whose `supersedes` list is aliased and extended in place", "an earlier V2000 file with `M  CHG/RAD` before `M  ISO` (or the reverse), then a file with D/T atoms or atom-block charges"),
 "c14-g": ("module-level refinement workspace shared by all calls of `canonicalize_molecule`", "two threads canonicalizing different molecules, switch between load and read-out"),
 "c14-h": ("as c14-a, other spelling (`isdisjoint` fast path)", "as c14-a"),
 "c14-i": ("per-thread reused parser pipeline whose listener is reset on `Exception` only", "an asynchronous interrupt (BaseException) during the tree walk or graph building, then another parse in that thread"),
 "c14-j": ("128-slot second-chance cache of parse results with an off-by-one in eviction", "≥128 distinct strings parsed, a hit on the slot under the sweep hand, a miss, then a re-parse of the overwritten slot's string"),
 "c14-k": ("single-entry module-level neighbourhood cache inside `attribute_sequence`", "two threads in canonicalize/serialize on different graphs, switch between key update and table use"),
 "c12-a": ("LRU of refined graphs keyed by labels, invariant codes and edges", "canonicalize A, then B with the same skeleton and atom order but other charges / bond orders / coordinates"),
 "c12-b": ("lock-protected LRU of canonical graphs keyed by structure only", "as c12-a (also the same object edited in place between two calls)"),
 "c12-c": ("serializer finds fragments once and resets the scratch flag of the last fragment only", "a molecule with ≥2 fragments serialized twice (or serialize, canonicalize, serialize)"),
 "c12-d": ("canonicalize cache that copies on hit but returns the cached object itself on a miss", "caller edits the first result, then canonicalizes the untouched argument again"),
 "c12-e": ("`WeakKeyDictionary` memo keyed by the argument object, never invalidated", "canonicalize, edit the same object in place, canonicalize again"),
 "c16-a": ("memo of the final permutation keyed by (labels, seed)", "same seed on two different molecules of equal atom count, the first one needing a retry"),
 "c16-b": ("retry loop compares sets of oriented edge tuples", "argument whose iteration order differs from label order (e.g. a canonicalized graph) and a first shuffle that maps the edge set onto itself"),
 "c16-c": ("identity shuffle skips the copy *and* label-ordered input skips the rebuild", "≤1 bond or complete molecule in label order with an identity shuffle: the argument itself is returned; visible once the caller edits the result"),
 "c16-d": ("first seeded shuffle memoised with `lru_cache`; on a hit the RNG is not reseeded", "a cache hit, a retry (small symmetric molecule) and a different global RNG state"),
 "c16-e": ("as c16-b (independent rediscovery)", "as c16-b"),
 "c14-l": ("invariant code of plain hydrogens shared through a lazily filled module-level cell", "the first hydrogen the process sees is an isotope or radical; every later molecule with plain H is then read differently"),
 "c14-m": ("V3000 reader remembers the CTAB layout in two module globals, key stored before value", "two threads inside the V3000 reader on different molfiles; a switch in the one-line window between key and value store, then two more well-placed switches"),
 "c14-n": ("V3000 atom-line keywords scanned from a `set` of the tokens", "an atom line with two tokens matching one keyword (`CHG=` and `EXACHG=`, a repeated property); two processes with different hash seeds"),
 "c14-o": ("V3000 optional properties converted while iterating a `set` of keyword strings", "a rejected atom line with ≥2 malformed property tokens: which error is raised depends on the hash seed"),
 "c12-f": ("as c12-a (independent rediscovery)", "as c12-a"),
 "c12-g": ("own copy/relabel helpers that re-use the argument's per-bond attribute dicts", "caller edits a bond attribute of the result (or of the argument) after canonicalizing"),
 "c16-f": ("single-pass permutation that pairs sorted labels with iteration-order labels", "argument whose iteration order differs from its label order (canonicalized graph)"),
 "c16-g": ("retry loop re-shuffles `m_permu` in place; identity first shuffle returns `m` itself", "enforced molecule whose first shuffle is the identity: the caller's graph is relabelled in place"),
 "c14-p": ("Hill-order sort key reads a module-level 'compound contains carbon' flag set just before sorting", "two threads serializing at once, one molecule with carbon and one without, switch within a few statements; victim has H and an element sorting before H"),
 "c14-q": ("V2000 property block collects assignments in a mutable default argument that a successful read drains", "a V2000 file rejected part-way through its property block, then any accepted V2000 file"),
 "c14-r": ("`WeakValueDictionary` from `id(input graph)` to the canonical result", "input graph freed while its result stays alive, a new graph of equal atom/bond counts allocated at the same address"),
 "c12-h": ("serialize leaves a slim 'canonical form' in `m.graph`; canonicalize has a fast path returning a copy of it", "serialize(g) then canonicalize(g) (or of a copy): charges, coordinates, bond types are gone"),
 "c16-h": ("retry path picks atoms to swap from a set of string tuples", "small symmetric molecule whose first shuffle needs a retry; two processes with different hash seeds"),
 "c14-s": ("V2000 atom line ORs the isotope mass into the dict taken from the module-level charge-code table", "a V2000 file with a D/T atom that has an atom-block charge, then any V2000 file using the same charge code"),
 "c14-t": ("free-list of idle lexer/parser pairs; a semantically rejected string hands its parser back twice", "an earlier semantic reject (self-loop, duplicate attribute, unknown index), then two threads parsing at once"),
 "c12-i": ("one-pass relabel that moves atoms by position but bond endpoints by old label", "canonicalize a graph whose insertion order differs from its label order (e.g. an already canonicalized graph)"),
 "c12-j": ("three harmless-looking shortcuts: return `m` when labels are final, return `m` when sorted, shift labels to 1-based in place", "a molecule whose atoms are all inequivalent and already sorted (He, HCl, ...): serialize renames the caller's atoms"),
 "c16-i": ("as c16-b (independent rediscovery, frozenset of oriented edges)", "as c16-b"),
 "c16-j": ("private `random.Random(seed)` for the first shuffle only; retries still use the global generator", "a retry (small symmetric molecule) and a different global RNG state"),
 "c14-u": ("writer emits an atom's CHG/RAD/MASS tokens while iterating a set intersection of keys", "an atom with two or more of charge, radical, isotope; written bodies compared across hash seeds"),
 "c14-v": ("V3000 continuation-line splicer as one module-level object with per-call state in attributes", "two threads reading V3000 molfiles at once, switch inside the splice loop"),
 "c14-w": ("canonicalization cache stored on second encounter, key lacks the radical", "two molecules differing only in radical position, processed A,B,A or A,A,B"),
 "c12-k": ("canonical graph assembled by hand: bonds without attributes keep a placeholder dict shared by all bonds of an atom", "canonicalize a parsed graph (bonds carry no attributes), then write one bond's attribute in the result"),
 "c12-l": ("serializer removes self-loop edges from the graph it is given", "an input with a bond whose two atom indices are equal; caller keeps the graph"),
 "c16-k": ("as c16-c (independent rediscovery)", "as c16-c"),
 "c14-x": ("parser listener reports the first repeated key of an attribute tuple from a set of key strings", "a rejected string whose single attribute tuple repeats both `mass` and `rad`; messages compared across hash seeds"),
 "c14-y": ("`calc_coordinates=True` layout cached for 60 s of monotonic time, key ignores node iteration order", "two graphs with equal labelled connectivity but different node order written with calculated coordinates within a minute"),
 "c14-z": ("one module-level ANTLR error strategy shared by all parsers: `errorRecoveryMode` survives a rejected parse", "a parser-level reject immediately followed (any thread) by an input whose syntax error is at token 0: it is accepted"),
 "c12-m": ("canonicalize refines partitions in place on the caller's graph and restores them at the end, no try/finally", "an interrupt inside canonicalize: the argument keeps intermediate partition values"),
 "c16-l": ("private RNG with a cache of first shuffles keyed by `round(seed, 9)`", "two seeds equal to 9 decimals on molecules with the same labels"),
 "c14-aa": ("canonicalize refines partitions in place on the caller's graph (one copy per call instead of one per step)", "two threads canonicalizing THE SAME graph object, a molecule whose refinement splits classes, a switch between one thread's reset and the other's read-out"),
 "c14-ab": ("`calc_coordinates=True` layout kept for 2 s of `time.monotonic`, keyed by `id(graph)` plus node set", "two writes with calculated coordinates < 2 s apart; the second graph sits at the address of the freed first one (same labels) or is the same object edited in place"),
 "c14-ac": ("`graph_from_file` text cache per path; the (mtime, size) signature is stored before the file is opened", "a read of a path that fails with an OS error after `stat()` succeeded, then a retry of the same unchanged path"),
 "c12-n": ("canonicalize 'unifies' optional attributes: `rad`/`mass` equal to 0 are deleted from the result", "an atom with `RAD=0` or `MASS=0` stored explicitly"),
 "c12-o": ("shared relabel helper returns `m` itself when the mapping is the identity; canonicalize pre-sorts with it and then partitions in place", "atoms already in sort order (hydrogens first: HCl, NH3 as H,H,H,N): the caller's `partition` values are overwritten, for HCl the result is the argument"),
 "c16-m": ("label-ordered rebuild uses the argument's node list instead of sorting", "argument whose insertion order differs from its label order (canonicalized graph)"),
 "c14-ad": ("writer parks the calculated layout in the node attributes of the caller's graph while formatting, restores in `finally`", "two threads writing THE SAME graph object, one with `calc_coordinates=True`, a switch between swap and restore"),
 "c14-ae": ("`lru_cache` of the lexer + token stream per input string, rewound with `seek(0)`", "the same string parsed twice, rejected at the lexer stage after the lexer had consumed part of a possible token (`X` not followed by `e`, `mas`, ...)"),
 "c12-p": ("`_assign_final_labels` returns `m` itself when every class is a singleton; `sort_molecule_by_attribute(copy=False)` then relabels in place", "a canonical graph with no two equivalent atoms whose atomic-number sort is not the identity (formic acid), kept by the caller after `serialize`"),
 "c16-n": ("as c16-j (independent rediscovery)", "as c16-j"),
}
print("| seeded change | what it does | needs in order to manifest | tests / demo | reported by (quick tier, VERIF_SEED=1) |")
print("|---|---|---|---|---|")
for d in sorted(glob.glob(os.path.join(os.path.dirname(__file__), "..", "seeded", "*"))):
    n = os.path.basename(d)
    mp = os.path.join(d, "meta.json")
    if not os.path.exists(mp):
        continue
    m = json.load(open(mp))
    what, needs = NEEDS.get(n, ("", ""))
    rep = []
    for c, v in sorted(m["checks"].items()):
        if v["exit"] == 1 and v["violation_lines"]:
            occ = [x for x in v["detail"] if "occurrence" in x]
            k = occ[0].split("):")[1].split("occ")[0].strip() if occ else "?"
            cl = occ[0].split("class (")[1].split(")")[0].split(",")[1].strip().strip("'") if occ else ""
            rep.append(f"**{c}** ({cl}, {k}×)")
        else:
            rep.append(f"{c}: clean" if v["exit"] == 0 else f"{c}: exit {v['exit']}")
    t = m["tests"]
    ok = "1138/1138 pass; demo %d→%d" % (m["demo"]["exit_with_change"], m["demo"]["exit_without_change"]) if not t["baseline_tests_now_failing"] else "TESTS FAIL"
    print(f"| `{n}` ({m['breaks_property']}) | {what} | {needs} | {ok} | {', '.join(rep)} |")
