#!/bin/sh
# usage: verify_all.sh "name prop check..." ...   (sequential; logs in /tmp/verify-<name>.log)
here=$(dirname "$0")
for spec in "$@"; do
  set -- $spec; n=$1; p=$2; shift 2
  python3 "$here/verify_seeded.py" "$n" "/tmp/wt-$n" "$p" "$@" > /tmp/verify-$n.log 2>&1
done
echo ALLDONE
