#!/usr/bin/env python3
"""Confirm a seeded change (made by an independent sub-agent in its own scratch
worktree) and file it under /verif/seeded/<name>/.

usage: verify_seeded.py <name> <agent-worktree> <property> [checks...]
Steps: (1) patch applies to the pinned tree in a fresh verification worktree;
(2) every test of the stable baseline still passes there; (3) the demonstration
fails with the change and passes without it (run in the agent's worktree, which
the demos hard-code); (4) the registered quick checks are run against the
patched tree (VERIF_REPO) and their verdicts recorded.  The verification
worktree is removed afterwards."""
import sys, os, json, subprocess, shutil, time
import xml.etree.ElementTree as ET

name, wt, prop = sys.argv[1:4]
checks = sys.argv[4:] or ["C12", "C14", "C16"]
VERIF = os.path.dirname(os.path.dirname(os.path.abspath(__file__)))  # the tree whose checks are run (may be a snapshot)
vs = f"/tmp/vs-{name}"
out = os.path.join("/verif", "seeded", name)  # results are always filed in /verif
os.makedirs(out, exist_ok=True)
meta = {"name": name, "breaks_property": prop, "ran": []}

def sh(cmd, **kw):
    meta["ran"].append(cmd if isinstance(cmd, str) else " ".join(cmd))
    return subprocess.run(cmd, shell=isinstance(cmd, str), capture_output=True, text=True, **kw)

patch = os.path.join(wt, "patch.diff")
shutil.copy(patch, os.path.join(out, "patch.diff"))
for f in ("demo.py", "demo.sh", "notes.md"):
    if os.path.exists(os.path.join(wt, f)):
        shutil.copy(os.path.join(wt, f), os.path.join(out, f))
demo = "demo.py" if os.path.exists(os.path.join(wt, "demo.py")) else "demo.sh"
# 1. fresh worktree
sh(f"git -C /repo worktree remove --force {vs}")
# base: /repo's HEAD; a change written against the pinned commit that touches lines
# repaired since by a "fix:" commit is verified against the pinned commit instead
PINNED = "38b5c67"
base_rev = "HEAD"
if subprocess.run(f"git -C /repo apply --check {patch}", shell=True, capture_output=True).returncode != 0:
    base_rev = PINNED
meta["base"] = subprocess.run(f"git -C /repo rev-parse --short {base_rev}", shell=True, capture_output=True, text=True).stdout.strip()
r = sh(f"git -C /repo worktree add --detach {vs} {base_rev}")
assert r.returncode == 0, r.stderr
try:
    r = sh(f"git -C {vs} apply {out}/patch.diff")
    meta["patch_applies"] = r.returncode == 0
    assert r.returncode == 0, r.stderr
    r = sh(f"git -C {vs} diff --stat")
    meta["diffstat"] = r.stdout.strip().splitlines()
    # 2. test-suite
    junit = f"/tmp/vs-{name}-junit.xml"
    t0 = time.time()
    r = sh(f"cd {vs} && PYTHONPATH={vs} /venv/bin/python -m pytest -q -p no:cacheprovider --timeout=900 --continue-on-collection-errors --junitxml={junit} -x --co -q >/dev/null 2>&1; cd {vs} && PYTHONPATH={vs} /venv/bin/python -m pytest -q -p no:cacheprovider --timeout=900 --continue-on-collection-errors --junitxml={junit} 2>&1 | tail -3")
    passed = set()
    for tc in ET.parse(junit).getroot().iter("testcase"):
        if not any(ch.tag in ("failure", "error", "skipped") for ch in tc):
            passed.add(f"{tc.get('classname')}::{tc.get('name')}")
    base = set(json.load(open("/root/.vp/BASELINE.json"))["stable_pass"])
    missing = sorted(base - passed)
    meta["tests"] = {"baseline_stable_pass": len(base), "passed_with_change": len(passed), "baseline_tests_now_failing": missing[:10], "summary": r.stdout.strip().splitlines()[-1:], "wall_s": round(time.time() - t0)}
    os.remove(junit)
    # 3. demo in the agent's worktree
    run = f"cd {wt} && PYTHONPATH={wt} " + ("/venv/bin/python demo.py" if demo == "demo.py" else "sh demo.sh")
    st = sh(f"git -C {wt} diff -- tucan | diff -q - {patch}")
    meta["worktree_diff_equals_patch"] = st.returncode == 0
    if st.returncode != 0:
        sh(f"git -C {wt} checkout -- tucan && git -C {wt} apply {patch}")
    r1 = sh(run + " >/tmp/vs-demo.out 2>&1; echo $?")
    sh(f"git -C {wt} apply -R {patch}")
    r0 = sh(run + " >/tmp/vs-demo0.out 2>&1; echo $?")
    sh(f"git -C {wt} apply {patch}")
    meta["demo"] = {"exit_with_change": int(r1.stdout.strip() or -1), "exit_without_change": int(r0.stdout.strip() or -1), "tail_with_change": open("/tmp/vs-demo.out").read()[-600:]}
    # 4. the registered quick checks against the patched tree
    meta["checks"] = {}
    for c in checks:
        t0 = time.time()
        rd = f"/tmp/vs-{name}-replays"
        env = dict(os.environ, VERIF_REPO=vs, VERIF_REPLAY_DIR=rd, VERIF_MIN_SECONDS=os.environ.get("VERIF_MIN_SECONDS", "150"))
        extra = ["--runs", os.environ["VERIF_RUNS"]] if os.environ.get("VERIF_RUNS") else []  # a smaller batch than the quick tier (recorded)
        r = subprocess.run([os.path.join(VERIF, "check"), c, "--no-evidence"] + extra, capture_output=True, text=True, env=env)
        meta["ran"].append(f"VERIF_REPO={vs} ./check {c} --no-evidence {' '.join(extra)}".strip())
        viol = [l for l in r.stdout.splitlines() if l.startswith("VIOLATION")]
        detail = [l for l in r.stdout.splitlines() if "violation class" in l or "differs" in l or "  minimised" in l or "_" in l and l.startswith("[") and "key=" in l]
        meta["checks"][c] = {"exit": r.returncode, "violation_lines": viol, "detail": [d[:400] for d in detail[:6]], "wall_s": round(time.time() - t0)}
        if viol and os.path.isdir(rd):
            os.makedirs(os.path.join(out, "replays"), exist_ok=True)
            for f in os.listdir(rd):
                shutil.copy(os.path.join(rd, f), os.path.join(out, "replays", f))
        shutil.rmtree(rd, ignore_errors=True)
        print(c, "exit", r.returncode, viol, flush=True)
finally:
    sh(f"git -C /repo worktree remove --force {vs}")
    meta["ran"] = meta["ran"]
ok = meta["patch_applies"] and not meta["tests"]["baseline_tests_now_failing"] and meta["demo"]["exit_with_change"] != 0 and meta["demo"]["exit_without_change"] == 0
meta["confirmed"] = bool(ok)
meta["detected_by"] = [c for c, v in meta["checks"].items() if v["exit"] == 1 and v["violation_lines"]]
json.dump(meta, open(os.path.join(out, "meta.json"), "w"), indent=1)
print(json.dumps({k: meta[k] for k in ("confirmed", "detected_by", "tests", "demo")}, indent=1)[:1500])
