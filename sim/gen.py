"""Seeded generation of inputs and run specs.  Imports nothing from tucan: every
molfile and every respelled / mutated string is produced by code of its own,
so that inputs do not depend on the tree under test (pipeline strings are the
exception: they are taken from the reference pass and handed in)."""
import os
import re
import glob
import math
import hashlib
from random import Random

ELEMENTS = (
    "H He Li Be B C N O F Ne Na Mg Al Si P S Cl Ar K Ca Sc Ti V Cr Mn Fe Co Ni Cu Zn Ga Ge As Se Br Kr "
    "Rb Sr Y Zr Nb Mo Tc Ru Rh Pd Ag Cd In Sn Sb Te I Xe Cs Ba La Ce Pr Nd Pm Sm Eu Gd Tb Dy Ho Er Tm Yb Lu "
    "Hf Ta W Re Os Ir Pt Au Hg Tl Pb Bi Po At Rn Fr Ra Ac Th Pa U Np Pu Am Cm Bk Cf Es Fm Md No Lr "
    "Rf Db Sg Bh Hs Mt Ds Rg Cn Nh Fl Mc Lv Ts Og"
).split()
COMMON = ["C"] * 10 + ["H"] * 8 + ["N"] * 3 + ["O"] * 3 + ["Cl", "S", "P", "F", "Br", "Si", "B", "Cs", "Co", "Cn", "Na", "Fe"]


def H(*parts):
    """Stable 63-bit hash of the parts (independent of PYTHONHASHSEED)."""
    h = hashlib.sha256("\x1f".join(str(p) for p in parts).encode()).digest()
    return int.from_bytes(h[:8], "big") >> 1


# --------------------------------------------------------------------------
# molecules and molfile renderings
# --------------------------------------------------------------------------
def rand_molecule(rng, big=False):
    if big:
        n = rng.randint(15, 40)
    else:
        n = rng.choice([1, 1, 2, 2, 3, 3, 4, 4, 5, 5, 6, 6, 7, 8, 9, 10, 11, 12, 13, 14])
    atoms = []
    # "lattice" molecules take coordinates from a tiny grid with signed zeros, so
    # that atoms of different molecules often sit at numerically equal positions
    lattice = rng.random() < 0.25 and n <= 20
    # "rich" molecules carry many labels, so that several labels meet on one atom
    rich = rng.random() < 0.3
    p_mass, p_rad, p_chg = (0.35, 0.35, 0.3) if rich else (0.06, 0.06, 0.08)
    for i in range(n):
        sym = rng.choice(COMMON) if rng.random() < 0.85 else rng.choice(ELEMENTS)
        a = {"sym": sym, "x": round(rng.uniform(-9, 9), 4) + i * 0.0001, "y": round(rng.uniform(-9, 9), 4), "z": round(rng.uniform(-3, 3), 4)}
        u = rng.random()
        if u < p_mass:
            a["mass"] = rng.randint(1, 260)
        elif u < p_mass + (0.3 if rich else 0.04) and sym == "H":
            a["sym"] = rng.choice(["D", "T"])
        if rng.random() < p_rad:
            a["rad"] = rng.randint(1, 3)
        if rng.random() < p_chg:
            a["chg"] = rng.choice([-3, -2, -1, 1, 2, 3])
        atoms.append(a)
    if lattice:
        _lattice_coords(atoms, rng)
    ncomp = 1 if n < 3 or rng.random() < 0.75 else rng.randint(2, min(3, n))
    comp = [rng.randrange(ncomp) for _ in range(n)]
    bonds = {}
    for c in range(ncomp):
        members = [i for i in range(n) if comp[i] == c]
        rng.shuffle(members)
        for k in range(1, len(members)):
            a, b = members[k], members[rng.randrange(k)]
            bonds[(min(a, b), max(a, b))] = rng.choice([1, 1, 1, 2, 2, 3, 4])
        extra = rng.choice([0, 0, 0, 1, 1, 2, 3]) if len(members) > 2 else 0
        for _ in range(extra):
            a, b = rng.sample(members, 2)
            bonds.setdefault((min(a, b), max(a, b)), rng.choice([1, 1, 2]))
    blist = list(bonds.items())
    rng.shuffle(blist)
    blist = [((a, b) if rng.random() < 0.5 else (b, a), t) for (a, b), t in blist]
    return {"atoms": atoms, "bonds": blist}


_GRID = [-1.5, -0.0, 0.0, 0.0, 1.5, 3.0]


def _lattice_coords(atoms, rng):
    seen = set()
    for a in atoms:
        for _ in range(200):
            t = (rng.choice(_GRID), rng.choice(_GRID), rng.choice([0.0, 0.0, -0.0, 1.5]))
            if t not in seen:  # numeric equality: -0.0 == 0.0
                seen.add(t)
                a["x"], a["y"], a["z"] = t
                break


def symmetric_molecules(rng):
    """Small highly symmetric skeletons: stars, rings, paths, complete graphs,
    single atoms, diatomics (retry loops, identity shuffles, symmetry ties)."""

    def build(syms, bonds):
        atoms = [{"sym": s, "x": 0.0, "y": 0.0, "z": 0.0} for s in syms]
        if rng.random() < 0.5:
            _lattice_coords(atoms, rng)
        else:
            for i, a in enumerate(atoms):
                a["x"], a["y"], a["z"] = round(rng.uniform(-5, 5), 4) + i * 0.0001, round(rng.uniform(-5, 5), 4), 0.0
        return {"atoms": atoms, "bonds": [((a, b), 1) for a, b in bonds]}

    out = []
    out.append(build(["He"], []))
    out.append(build(["H", "H"], [(0, 1)]))
    out.append(build(["H", "Cl"], [(0, 1)]))
    out.append(build(["H", "O", "H"], [(0, 1), (2, 1)]))
    out.append(build(["Cl", "Be", "Cl"], [(0, 1), (1, 2)]))
    out.append(build(["N", "H", "H", "H"], [(0, 1), (0, 2), (0, 3)]))
    out.append(build(["B", "F", "F", "F"], [(0, 1), (0, 2), (0, 3)]))
    out.append(build(["C", "H", "H", "H", "H"], [(0, 1), (0, 2), (0, 3), (0, 4)]))
    out.append(build(["P", "P", "P", "P"], [(0, 1), (0, 2), (0, 3), (1, 2), (1, 3), (2, 3)]))
    out.append(build(["C", "C", "C"], [(0, 1), (1, 2), (2, 0)]))
    k = rng.randint(4, 8)
    out.append(build(["C"] * k, [(i, (i + 1) % k) for i in range(k)]))
    k = rng.randint(3, 7)
    out.append(build(["C"] * k, [(i, i + 1) for i in range(k - 1)]))
    out.append(build(["O", "C", "O"], [(0, 1), (1, 2)]))
    out.append(build(["Ar", "Ar", "Ar"], []))
    out.append(build(["C", "C", "H", "H", "H", "H", "H", "H"], [(0, 1), (0, 2), (0, 3), (0, 4), (1, 5), (1, 6), (1, 7)]))
    return out


def corner_molecules():
    """Hand-specified molecules that put rarely combined format features into every
    pool: (name, molecule, forced rendering).  Rendering "v2000-block" keeps charges
    and doublet radicals in the atom block, "v2000-lines" uses M  CHG lines."""

    def mk(atoms, bonds):
        out = []
        for i, a in enumerate(atoms):
            d = {"sym": a[0], "x": 0.5 + 1.25 * i, "y": 0.25 * (i % 3), "z": 0.0}
            d.update(a[1] if len(a) > 1 else {})
            out.append(d)
        return {"atoms": out, "bonds": [((a, b), t) for a, b, t in bonds]}

    return [
        ("LiD-ionpair", mk([("Li", {"chg": 1}), ("D", {"chg": -1})], []), "v2000-block"),
        ("T-cation", mk([("T", {"chg": 1})], []), "v2000-block"),
        ("ND4-cation", mk([("N", {"chg": 1}), ("D",), ("D",), ("D",), ("D",)], [(0, 1, 1), (0, 2, 1), (0, 3, 1), (0, 4, 1)]), "v2000-lines"),
        ("NH4-cation", mk([("N", {"chg": 1}), ("H",), ("H",), ("H",), ("H",)], [(0, 1, 1), (0, 2, 1), (0, 3, 1), (0, 4, 1)]), "v2000-block"),
        ("hydroxide", mk([("O", {"chg": -1}), ("H",)], [(0, 1, 1)]), "v2000-block"),
        ("methyl-13C-radical", mk([("C", {"mass": 13, "rad": 2}), ("H",), ("H",), ("H",)], [(0, 1, 1), (0, 2, 1), (0, 3, 1)]), "v2000-block"),
        ("methyl-13C-radical-v3", mk([("C", {"mass": 13, "rad": 2}), ("H",), ("H",), ("H",)], [(0, 1, 1), (0, 2, 1), (0, 3, 1)]), "v3000"),
        ("HDO", mk([("H",), ("O",), ("D",)], [(0, 1, 1), (2, 1, 1)]), "v2000-lines"),
        ("D2O", mk([("D",), ("O",), ("D",)], [(0, 1, 1), (2, 1, 1)]), "v3000"),
        ("CH3Cl", mk([("C",), ("Cl",), ("H",), ("H",), ("H",)], [(0, 1, 1), (0, 2, 1), (0, 3, 1), (0, 4, 1)]), "v3000"),
        ("nitrite", mk([("O", {"chg": -1}), ("N",), ("O",)], [(0, 1, 1), (1, 2, 2)]), "v2000-block"),
        ("T-anion-Li", mk([("T", {"chg": -1}), ("Li", {"chg": 1})], []), "v2000-block"),
        # a bond line whose two atom indices are equal: both readers accept it
        ("self-bonded", mk([("C",), ("O",), ("N",), ("H",)], [(0, 1, 2), (0, 2, 1), (2, 2, 2), (2, 3, 1)]), "v3000"),
        # properties stored with the value zero (RAD=0, MASS=0, CHG=0 are legal tokens
        # and the reader keeps them): "every atom keeps all of its attributes"
        ("methanol-explicit-zeros", mk([("C", {"chg": 0, "rad": 0, "mass": 0}), ("O", {"rad": 0}), ("H", {"mass": 0}), ("H",), ("H", {"chg": 0}), ("H",)], [(0, 1, 1), (0, 2, 1), (0, 3, 1), (0, 4, 1), (1, 5, 1)]), "v3000"),
        ("hydroxyl-radical-explicit-zeros", mk([("O", {"rad": 2, "mass": 0}), ("H", {"rad": 0})], [(0, 1, 1)]), "v3000"),
        # atoms listed hydrogens first / already in the order a sort would produce
        ("HCl-H-first", mk([("H",), ("Cl",)], [(0, 1, 1)]), "v3000"),
        ("NH3-H-first", mk([("H",), ("H",), ("H",), ("N",)], [(0, 3, 1), (1, 3, 1), (2, 3, 1)]), "v3000"),
        ("H2O2-H-first", mk([("H",), ("H",), ("O",), ("O",)], [(0, 2, 1), (1, 3, 1), (2, 3, 1)]), "v3000"),
        ("He-atom", mk([("He",)], []), "v3000"),
        # no two atoms equivalent (every partition class is a singleton)
        ("formic-acid", mk([("C",), ("O",), ("O",), ("H",), ("H",)], [(0, 1, 2), (0, 2, 1), (0, 3, 1), (2, 4, 1)]), "v3000"),
        ("isocyanic-acid", mk([("H",), ("N",), ("C",), ("O",)], [(0, 1, 1), (1, 2, 2), (2, 3, 2)]), "v3000"),
        ("bromochlorofluoromethane", mk([("Br",), ("C",), ("Cl",), ("F",), ("H",)], [(0, 1, 1), (1, 2, 1), (1, 3, 1), (1, 4, 1)]), "v2000-lines"),
        ("allyl-radical-1", mk([("C", {"rad": 2}), ("C",), ("C",), ("H",), ("H",), ("H",), ("H",), ("H",)], [(0, 1, 1), (1, 2, 2), (0, 3, 1), (0, 4, 1), (1, 5, 1), (2, 6, 1), (2, 7, 1)]), "v3000"),
        ("allyl-radical-3", mk([("C",), ("C",), ("C", {"rad": 2}), ("H",), ("H",), ("H",), ("H",), ("H",)], [(0, 1, 2), (1, 2, 1), (0, 3, 1), (0, 4, 1), (1, 5, 1), (2, 6, 1), (2, 7, 1)]), "v3000"),
    ]


def redraw(mol, rng):
    """Same atoms, elements, isotopes, radicals and bonds in the same order; other
    coordinates, bond orders and charges (a resonance/conformer style redrawing)."""
    atoms = []
    for a in mol["atoms"]:
        b = {k: v for k, v in a.items() if k != "chg"}
        b["y"] = round(rng.uniform(-9, 9), 4)
        b["z"] = round(rng.uniform(-3, 3), 4)
        if rng.random() < 0.3:
            b["chg"] = rng.choice([-3, -2, -1, 1, 2, 3])
        atoms.append(b)
    bonds = [(ab, rng.choice([1, 2, 3, 4])) for ab, t in mol["bonds"]]
    return {"atoms": atoms, "bonds": bonds}


def move_labels(mol, rng):
    """Same atoms and bonds in the same order; the radical / isotope labels sit on
    other atoms of the same element (another molecule on the same skeleton).
    None if the molecule offers no such move."""
    atoms = [dict(a) for a in mol["atoms"]]
    moved = False
    for key in ("rad", "mass"):
        for i, a in enumerate(atoms):
            if key in a and rng.random() < 0.8:
                cands = [j for j, b in enumerate(atoms) if j != i and b["sym"] == a["sym"] and key not in b]
                if cands:
                    j = rng.choice(cands)
                    atoms[j][key] = atoms[i].pop(key)
                    moved = True
    return {"atoms": atoms, "bonds": list(mol["bonds"])} if moved else None


def render_v3000(mol, rng=None, name="sim"):
    na, nb = len(mol["atoms"]), len(mol["bonds"])
    L = [name, "  simgen", "", "  0  0  0     0  0            999 V3000", "M  V30 BEGIN CTAB", f"M  V30 COUNTS {na} {nb} 0 0 0", "M  V30 BEGIN ATOM"]
    for i, a in enumerate(mol["atoms"], 1):
        s = f"M  V30 {i} {a['sym']} {a['x']:.4f} {a['y']:.4f} {a['z']:.4f} 0"
        props = []
        if "chg" in a:
            props.append(f"CHG={a['chg']}")
        if "rad" in a:
            props.append(f"RAD={a['rad']}")
        if "mass" in a:
            props.append(f"MASS={a['mass']}")
        if rng is not None:
            # other keywords the format defines, and (legal for a reader that keeps
            # the last one) a property written twice
            if rng.random() < 0.12:
                props.append(rng.choice(["CFG=0", "VAL=1", "HCOUNT=0", "EXACHG=1", "EXACHG=0", "STBOX=0", "INVRET=0", "SUBST=1", "UNSAT=0", "RBCNT=0", "ATTCHPT=1", "CLASS=AA", "SEQID=1"]))
            if props and rng.random() < 0.05:
                k = rng.choice(props).split("=")[0]
                props.append(f"{k}={rng.choice([1, 2, 3])}")
            rng.shuffle(props)
        L.append(" ".join([s] + props))
    L.append("M  V30 END ATOM")
    if nb:
        L.append("M  V30 BEGIN BOND")
        for i, ((a, b), t) in enumerate(mol["bonds"], 1):
            L.append(f"M  V30 {i} {t} {a + 1} {b + 1}")
        L.append("M  V30 END BOND")
    L += ["M  V30 END CTAB", "M  END"]
    return "\n".join(L) + "\n"


_CHG_CODE = {3: 1, 2: 2, 1: 3, -1: 5, -2: 6, -3: 7}


def render_v2000(mol, rng, name="sim", use_prop_lines=None):
    na, nb = len(mol["atoms"]), len(mol["bonds"])
    if use_prop_lines is None:
        use_prop_lines = rng.random() < 0.5
    L = [name, "  simgen", "", f"{na:3d}{nb:3d}  0  0  0  0  0  0  0  0999 V2000"]
    rad_in_block = set()
    for i, a in enumerate(mol["atoms"]):
        ccc = 0
        if not use_prop_lines and "chg" in a:
            ccc = _CHG_CODE[a["chg"]]
        elif not use_prop_lines and a.get("rad") == 2 and "chg" not in a and rng.random() < 0.5:
            ccc = 4  # doublet radical in the atom block
            rad_in_block.add(i)
        L.append(f"{a['x']:10.4f}{a['y']:10.4f}{a['z']:10.4f} {a['sym']:<3} 0{ccc:3d}  0  0  0  0  0  0  0  0  0  0")
    for (a, b), t in mol["bonds"]:
        L.append(f"{a + 1:3d}{b + 1:3d}{t:3d}  0  0  0  0")

    def prop(tag, items):
        for k in range(0, len(items), 8):
            chunk = items[k : k + 8]
            L.append(f"M  {tag}{len(chunk):3d}" + "".join(f" {i:3d} {v:3d}" for i, v in chunk))

    groups = []
    if use_prop_lines:
        groups.append(("CHG", [(i, a["chg"]) for i, a in enumerate(mol["atoms"], 1) if "chg" in a]))
    rads = [(i, a["rad"]) for i, a in enumerate(mol["atoms"], 1) if "rad" in a and (i - 1) not in rad_in_block]
    if rad_in_block and rads:
        # property lines supersede the atom block: all radicals must then be listed
        rads = [(i, a["rad"]) for i, a in enumerate(mol["atoms"], 1) if "rad" in a]
    groups.append(("RAD", rads))
    groups.append(("ISO", [(i, a["mass"]) for i, a in enumerate(mol["atoms"], 1) if "mass" in a]))
    rng.shuffle(groups)  # the format fixes no order of property lines
    for tag, items in groups:
        prop(tag, items)
    L.append("M  END")
    return "\n".join(L) + "\n"


_V3ATOM = re.compile(r"^(M  V30 \d+ )([A-Za-z]{1,2})( .*)$")


def same_size_variant(text, rng):
    """Another molecule in a file of exactly the same byte length: the element
    symbols of two atom lines are exchanged (equal symbol width, different
    element).  None if the text offers no such pair."""
    lines = text.split("\n")
    cand = []
    if len(lines) > 3 and "V3000" in lines[3]:
        for i, l in enumerate(lines):
            m = _V3ATOM.match(l)
            if m:
                cand.append((i, m.group(2)))
    elif len(lines) > 3 and "V2000" in lines[3]:
        try:
            na = int(lines[3][0:3])
        except ValueError:
            return None
        for i in range(4, min(4 + na, len(lines))):
            if len(lines[i]) >= 34:
                cand.append((i, lines[i][31:34]))
    pairs = [(a, b) for a in cand for b in cand if a[0] < b[0] and a[1] != b[1] and len(a[1]) == len(b[1])]
    if not pairs:
        return None
    (i, si), (j, sj) = rng.choice(pairs)
    if "V3000" in lines[3]:
        mi, mj = _V3ATOM.match(lines[i]), _V3ATOM.match(lines[j])
        lines[i] = mi.group(1) + sj + mi.group(3)
        lines[j] = mj.group(1) + si + mj.group(3)
    else:
        lines[i] = lines[i][:31] + sj + lines[i][34:]
        lines[j] = lines[j][:31] + si + lines[j][34:]
    out = "\n".join(lines)
    return out if len(out) == len(text) and out != text else None


def malformed_molfiles(rng, valid_texts):
    out = ["", "only\ntwo lines\n", "a\nb\nc\n  0  0  0     0  0            999 V4000\n"]
    for t in valid_texts:
        lines = t.split("\n")
        k = rng.randrange(6)
        if k == 0 and len(lines) > 6:
            del lines[rng.randrange(4, len(lines) - 1)]
        elif k == 1:
            lines = lines[: rng.randrange(1, max(2, len(lines) - 1))]
        elif k == 2:
            i = rng.randrange(len(lines))
            lines[i] = lines[i].replace(" C ", " Xx ", 1).replace(" H ", " Qq ", 1)
        elif k == 3:
            i = rng.randrange(len(lines))
            toks = lines[i].split(" ")
            if toks:
                j = rng.randrange(len(toks))
                toks[j] = rng.choice(["", "x", "-1", "999", "1e400", "BEGIN", "-"])
            lines[i] = " ".join(toks)
        elif k == 4:
            lines = [l for l in lines if l != "M  END"]
        else:
            i = rng.randrange(len(lines))
            lines[i] = lines[i] + "-"
        out.append("\n".join(lines))
    for t in valid_texts:
        # several broken property tokens on one atom line (which one is reported?)
        lines = t.split("\n")
        idx = [i for i, l in enumerate(lines) if _V3ATOM.match(l)]
        if not idx:
            continue
        i = rng.choice(idx)
        m = _V3ATOM.match(lines[i])
        core = m.group(1) + m.group(2) + " ".join(m.group(3).split(" ")[:5])
        bad = rng.sample(["CHG", "CHG=x", "MASS=", "MASS=y", "RAD=z", "RAD", "CHG=1.5", "MASS=-"], rng.randint(2, 3))
        lines[i] = core + " " + " ".join(bad)
        out.append("\n".join(lines))
    return out


# --------------------------------------------------------------------------
# TUCAN strings: respellings, mutations, boundaries
# --------------------------------------------------------------------------
_TUPLE = re.compile(r"\((\d+)-(\d+)\)")
_ATTR = re.compile(r"\((\d+):([^)]*)\)")
_TOKEN = re.compile(r"[A-Z][a-z]?|\d+|mass|rad|.", re.S)

BOUNDARY_STRINGS = [
    "",
    "/",
    "//",
    "C",
    "C/",
    "H2/",
    "CH4/",
    "C1H4/",
    "HCl/(1-2)",
    "ClH/(1-2)",
    "CH4/(1-2)(1-3)(1-4)(1-5)",
    "CH4/(1-2)(1-3)(1-4)(1-6)",
    "CH4/(1-1)",
    "CH4/(1-2)(2-1)(1-2)",
    "CH4/(5-1)(4-1)(1-3)(2-1)",
    "CH4/(1-2)(1-3)(1-4)(1-5)/(1:mass=13)",
    "CH4/(1-2)(1-3)(1-4)(1-5)/(1:mass=13,rad=2)",
    "CH4/(1-2)(1-3)(1-4)(1-5)/(1:mass=13)(1:rad=2)",
    "CH4/(1-2)(1-3)(1-4)(1-5)/(1:mass=13)(1:mass=14)",
    "CH4/(1-5)/(1:mass=2,rad=3,rad=4,mass=5)",
    "CH4/(1-5)/(1:rad=3,mass=2,mass=5,rad=4)",
    "CH4/(1-2)(1-3)(1-4)(1-5)/(1:mass=0)",
    "CH4/(1-2)(1-3)(1-4)(1-5)/(6:mass=2)",
    "CH4/(1-2)(1-3)(1-4)(1-5)/(2:mass=2)(3:mass=3)",
    "CH4/(1-2)(1-3)(1-4)(1-5)/(2:rad=1,mass=2)",
    "C2H6O/(1-2)(1-3)(1-4)(1-5)(2-6)(2-7)(2-8)(3-9)",
    "C2H6O/(1-7)(1-8)(1-9)(2-4)(2-5)(2-6)(3-7)(3-8)",
    "CClCsCoCn/(1-2)(2-3)(3-4)(4-5)",
    "CCnCoCsCl/(1-2)",
    "CClCnCoCs/(1-2)(2-3)(3-4)(4-5)",
    "ClCsCoCn/(1-2)",
    "ClCnCoCs/(1-2)(1-3)(1-4)",
    "H2O/(1-3)(2-3)",
    "H2O/(1-2)(2-3)",
    "OH2/(1-2)",
    "H02/",
    "C01/",
    "C2H6O /(1-2)",
    "C2H6O/(1-2)\n",
    "c2h6o/(1-2)",
    "C2H6O/(1- 2)",
    "C2H6O/(1-2",
    "C2H6O/1-2)",
    "C2H6O/(1-2))",
    "C2H6O/(0-1)",
    "C2H6O/(1-2)/",
    "C2H6O/(1-2)/(1:)",
    "C2H6O/(1-2)/(1:mass)",
    "C2H6O/(1-2)/(1:mass=)",
    "C2H6O/(1-2)/(1:mass=1,)",
    "C2H6O/(1-2)/(1:charge=1)",
    "Xx2/",
    "HHe/(1-2)",
    "HeH/(1-2)",
    "C10H22/(1-11)(1-12)(1-13)(1-2)(2-3)(3-4)(4-5)(5-6)(6-7)(7-8)(8-9)(9-10)",
    "C100/",
    "Og2Ts/(1-2)(2-3)",
    "é/",
    "C\x00/",
]


def respell(s, rng):
    """A different spelling of the same molecule (tuple order, endpoint order,
    duplicated tuples, attribute block order / splitting)."""
    parts = s.split("/")
    if len(parts) < 2:
        return s
    tuples = _TUPLE.findall(parts[1])
    rng.shuffle(tuples)
    tuples = [(a, b) if rng.random() < 0.5 else (b, a) for a, b in tuples]
    if tuples and rng.random() < 0.3:
        tuples.insert(rng.randrange(len(tuples) + 1), rng.choice(tuples))
    out = parts[0] + "/" + "".join(f"({a}-{b})" for a, b in tuples)
    if len(parts) > 2 and parts[2]:
        blocks = []
        for idx, body in _ATTR.findall(parts[2]):
            kv = body.split(",")
            rng.shuffle(kv)
            if len(kv) > 1 and rng.random() < 0.5:
                blocks += [(idx, [x]) for x in kv]
            else:
                blocks.append((idx, kv))
        rng.shuffle(blocks)
        out += "/" + "".join(f"({i}:{','.join(kv)})" for i, kv in blocks)
    return out


def semantic_reject(s, rng):
    """A syntactically valid sentence that the listener / graph builder rejects:
    self-loop, attribute set twice, index beyond the last atom."""
    parts = s.split("/")
    if len(parts) < 2:
        return s + "/(1-1)"
    tuples = _TUPLE.findall(parts[1])
    n = max([int(x) for t in tuples for x in t] + [1])
    k = rng.randrange(5)
    if k == 4:
        # one attribute tuple that repeats BOTH keys (which repetition is reported?)
        i = rng.randint(1, n)
        kv = [f"mass={rng.randint(1, 9)}", f"rad={rng.randint(1, 3)}", f"rad={rng.randint(1, 3)}", f"mass={rng.randint(1, 9)}"]
        rng.shuffle(kv)
        extra = f"({i}:{','.join(kv)})"
        if len(parts) > 2:
            parts[2] = parts[2] + extra if rng.random() < 0.5 else extra + parts[2]
        else:
            parts.append(extra)
    elif k == 0:
        i = rng.randint(1, n)
        tuples.insert(rng.randrange(len(tuples) + 1), (str(i), str(i)))
        parts[1] = "".join(f"({a}-{b})" for a, b in tuples)
    elif k == 1:
        i = rng.randint(1, n)
        key = rng.choice(["mass", "rad"])
        extra = f"({i}:{key}={rng.randint(1, 3)})({i}:{key}={rng.randint(1, 9)})"
        if len(parts) > 2:
            parts[2] += extra
        else:
            parts.append(extra)
    elif k == 2:
        i = rng.randint(1, n)
        key = rng.choice(["mass", "rad"])
        extra = f"({i}:{key}={rng.randint(1, 3)},{key}={rng.randint(1, 9)})"
        if len(parts) > 2:
            parts[2] = extra + parts[2]
        else:
            parts.append(extra)
    else:
        big = n + rng.choice([1, 1, 2, 50, 1000])
        tuples.append((str(rng.randint(1, n)), str(big)))
        parts[1] = "".join(f"({a}-{b})" for a, b in tuples)
    return "/".join(parts)


def mutate_string(s, rng):
    toks = _TOKEN.findall(s)
    alphabet = ["(", ")", "-", "/", ":", ",", "=", "mass", "rad", "0", "1", "2", "10", "C", "H", "Cl", "Cs", "N", "O", "He", " ", "x", "07"]
    k = rng.randrange(4)
    if not toks:
        return rng.choice(alphabet)
    i = rng.randrange(len(toks))
    if k == 0:
        toks.insert(i, rng.choice(alphabet))
    elif k == 1:
        del toks[i]
    elif k == 2:
        toks[i] = rng.choice(alphabet)
    elif len(toks) > 1:
        j = min(i + 1, len(toks) - 1)
        toks[i], toks[j] = toks[j], toks[i]
    return "".join(toks)


# --------------------------------------------------------------------------
# pool
# --------------------------------------------------------------------------
def _atom_count(text):
    lines = text.splitlines()
    try:
        if len(lines) > 5 and "V3000" in lines[3]:
            return int(lines[5].split()[3])
        if len(lines) > 3 and "V2000" in lines[3]:
            return int(lines[3][0:3])
    except (ValueError, IndexError):
        pass
    return None


class Pool:
    """Input texts of a batch.  ids: T<n> molfiles (valid or not), S<n> strings."""

    def __init__(self):
        self.texts = {}
        self.mol_valid = []  # ids of molfiles expected to be readable
        self.mol_bad = []
        self.str_pipeline = []
        self.str_respelled = []
        self.str_mutated = []
        self.str_boundary = []
        self.str_semantic = []
        self.redrawn = {}  # molfile id -> id of a redrawing of the same skeleton
        self.samesize = {}  # molfile id -> id of another molecule in a file of the same byte length
        self.meta = {}

    def add(self, prefix, text, bucket, **meta):
        if prefix == "T" and "n" not in meta:
            meta["n"] = _atom_count(text)
        tid = f"{prefix}{sum(1 for k in self.texts if k.startswith(prefix))}"
        self.texts[tid] = text
        bucket.append(tid)
        self.meta[tid] = meta
        return tid


def corpus_files(repo, max_atoms=40):
    out = []
    for pat in ("tests/molfiles/*/*.mol", "tests/molfiles_v2000/*/*.mol"):
        for f in sorted(glob.glob(os.path.join(repo, pat))):
            try:
                with open(f, newline="") as fh:
                    t = fh.read()
            except OSError:
                continue
            lines = t.splitlines()
            n = None
            try:
                if len(lines) > 5 and "V3000" in lines[3]:
                    n = int(lines[5].split()[3])
                elif len(lines) > 3 and "V2000" in lines[3]:
                    n = int(lines[3][0:3])
            except ValueError:
                pass
            if n is not None and n <= max_atoms:
                out.append((os.path.relpath(f, repo), t))
    return out


def build_pool_molfiles(master, repo, n_corpus, n_random, n_big, n_bad):
    rng = Random(H(master, "pool-mol"))
    pool = Pool()
    files = corpus_files(repo)
    rng.shuffle(files)
    for rel, t in files[:n_corpus]:
        pool.add("T", t, pool.mol_valid, src=rel)
    for k in range(n_random + n_big):
        mol = rand_molecule(rng, big=(k >= n_random))
        v2 = rng.random() < 0.35 and len(mol["atoms"]) <= 999
        render = (lambda m, nm: render_v2000(m, rng, nm)) if v2 else (lambda m, nm: render_v3000(m, rng, nm))
        tid = pool.add("T", render(mol, f"sim{k}"), pool.mol_valid, src="random-v2000" if v2 else "random-v3000")
        if rng.random() < 0.3:
            # a redrawing of the same skeleton in the same atom order
            rid = pool.add("T", render(redraw(mol, rng), f"sim{k}r"), pool.mol_valid, src="redrawn", of=tid)
            pool.redrawn[tid] = rid
        elif rng.random() < 0.6:
            mv = move_labels(mol, rng)
            if mv is not None:
                # another molecule on the same skeleton and numbering (labels moved)
                rid = pool.add("T", render(mv, f"sim{k}m"), pool.mol_valid, src="labels-moved", of=tid)
                pool.redrawn[tid] = rid
    for name, mol, how in corner_molecules():
        if how == "v3000":
            pool.add("T", render_v3000(mol, rng, name), pool.mol_valid, src="corner-v3000", name=name)
        else:
            pool.add("T", render_v2000(mol, rng, name, use_prop_lines=(how == "v2000-lines")), pool.mol_valid, src="corner-" + how, name=name)
    by_name = {pool.meta[t].get("name"): t for t in pool.mol_valid if pool.meta[t].get("name")}
    if "allyl-radical-1" in by_name and "allyl-radical-3" in by_name:
        pool.redrawn[by_name["allyl-radical-1"]] = by_name["allyl-radical-3"]
        pool.redrawn[by_name["allyl-radical-3"]] = by_name["allyl-radical-1"]
    for k, mol in enumerate(symmetric_molecules(rng)):
        if rng.random() < 0.3:
            pool.add("T", render_v2000(mol, rng, f"sym{k}"), pool.mol_valid, src="symmetric-v2000")
        else:
            pool.add("T", render_v3000(mol, rng, f"sym{k}"), pool.mol_valid, src="symmetric-v3000")
    for tid in list(pool.mol_valid):
        if rng.random() < 0.5:
            v = same_size_variant(pool.texts[tid], rng)
            if v is not None:
                pool.samesize[tid] = pool.add("T", v, pool.mol_valid, src="same-size-variant", of=tid)
    valid = [pool.texts[t] for t in pool.mol_valid]
    bad = malformed_molfiles(rng, [rng.choice(valid) for _ in range(max(0, n_bad - 3))]) if valid else malformed_molfiles(rng, [])
    for t in bad:
        pool.add("T", t, pool.mol_bad, src="malformed")
    return pool


def build_pool_strings(pool, master, pipeline_strings, n_respell, n_mutate):
    rng = Random(H(master, "pool-str"))
    seen = set()
    for s in pipeline_strings:
        if isinstance(s, str) and s not in seen:
            seen.add(s)
            pool.add("S", s, pool.str_pipeline, src="pipeline")
    base = [pool.texts[i] for i in pool.str_pipeline] or ["CH4/(1-2)(1-3)(1-4)(1-5)"]
    for _ in range(n_respell):
        pool.add("S", respell(rng.choice(base), rng), pool.str_respelled, src="respelled")
    for _ in range(n_mutate):
        s = rng.choice(base)
        for _ in range(rng.choice([1, 1, 1, 2, 3])):
            s = mutate_string(s, rng)
        pool.add("S", s, pool.str_mutated, src="mutated")
    for _ in range(max(8, n_mutate // 2)):
        pool.add("S", semantic_reject(rng.choice(base), rng), pool.str_semantic, src="semantic-reject")
    for s in BOUNDARY_STRINGS:
        pool.add("S", s, pool.str_boundary, src="boundary")
    return pool


# --------------------------------------------------------------------------
# run specs
# --------------------------------------------------------------------------
CLASS_MIX = {
    "C14": (("A", 0.35), ("B", 0.27), ("C", 0.23), ("D", 0.15)),
    "C12": (("A", 0.45), ("B", 0.35), ("C", 0.20)),
    "C16": (("A", 0.60), ("B", 0.40)),
}

ABORT_SITES = {
    "parse": [
        ("ParserATNSimulator.py", "addDFAState"),
        ("ParserATNSimulator.py", "addDFAEdge"),
        ("ParserATNSimulator.py", "computeTargetState"),
        ("ParserATNSimulator.py", None),
        ("LexerATNSimulator.py", "addDFAState"),
        ("LexerATNSimulator.py", "addDFAEdge"),
        ("LexerATNSimulator.py", None),
        ("PredictionContext.py", None),
        ("DFA.py", None),
        ("DFAState.py", None),
        ("ATN.py", None),
        ("LL1Analyzer.py", None),
        ("parser/parser.py", None),
        ("parser/parser.py", "to_graph"),
        ("parser/parser.py", "enterTuple"),
        ("parser/parser.py", "_add_atoms"),
        ("tree/Tree.py", "walk"),
        ("tree/Tree.py", None),
        ("tucanParser.py", None),
        ("graph_utils.py", None),
    ],
    "serialize": [("serialization.py", "_assign_final_labels"), ("serialization.py", None), ("graph_utils.py", None)],
    "canon": [("canonicalization.py", None), ("graph_utils.py", None)],
    "permute": [("random.py", None), ("graph_utils.py", None)],
    "read": [("molfile_v3000_reader.py", None), ("molfile_v2000_reader.py", None), ("graph_utils.py", None)],
    "read_file": [("molfile_reader.py", None), ("molfile_v3000_reader.py", None)],
    "write": [("molfile_writer.py", None)],
}
STEP_CAP = {"parse": 400_000, "serialize": 5_000, "canon": 5_000, "permute": 1_500, "read": 6_000, "read_file": 6_000, "write": 2_000}

_CLOCKS = [
    946684800.0 - 1.0,  # 1999-12-31 23:59:59
    946684800.0,  # 2000-01-01
    253402300740.0,  # 9999-12-31 23:59
    0.0,
    1.7e9 + 59.5,
    4102444799.0,  # 2099-12-31 23:59:59
    951782399.0,  # 2000-02-28 23:59:59
]


def _wchoice(rng, pairs):
    u = rng.random() * sum(w for _, w in pairs)
    for v, w in pairs:
        u -= w
        if u <= 0:
            return v
    return pairs[-1][0]


def _loguniform(rng, lo, hi):
    return int(round(math.exp(rng.uniform(math.log(lo), math.log(hi)))))


class _ClientGen:
    """Builds the op list of one client, tracking live registers statically."""

    def __init__(self, rng, prop, cls, mols, strs, bad_mols, files, multi, rewrites=None):
        self.rng, self.prop, self.cls = rng, prop, cls
        self.mols, self.strs, self.bad_mols, self.files = mols, strs, bad_mols, files
        self.rewrites = rewrites or {}  # private path -> list of text ids that may be written to it
        self.valid_strs = set()  # ids of strings expected to be accepted
        self._in_followup = False
        self.parse_bias = 0.0  # long histories: share of sources that are parses of many distinct strings
        self.mult = {}  # swarm: per-run multipliers of the op weights
        self.seed_palette = None  # C16: the few permutation seeds this run uses
        self.multi = multi
        self.ops = []
        self.live = {"graph": [], "canon": [], "string": [], "moltext": []}
        self.callops = []  # indices of library ops (candidates for `again`)
        self.faulty = cls in ("B", "D")

    def _add(self, op, rtype=None, canon=False):
        i = len(self.ops)
        kind = op["op"]
        b = op
        while b["op"] == "again":
            b = self.ops[b["of"]]
        kind = b["op"]
        if self.faulty and kind in ABORT_SITES and "abort" not in op and not self._in_followup and self.rng.random() < 0.18:
            um = self.rng.random()
            if um < 0.35:
                # anywhere in the operation, uniformly over its (estimated) length
                op["abort"] = {"frac": round(self.rng.uniform(0.0, 1.15), 4)}
            elif um < 0.65:
                site = self.rng.choice(ABORT_SITES[kind])
                op["abort"] = {"site": list(site), "n": _loguniform(self.rng, 1, 300)}
            else:
                # half log-uniform (early steps are dense in distinct code), half
                # uniform up to a cap that is sometimes the cold-cache length
                cap = STEP_CAP[kind] * (1 if self.rng.random() < 0.7 else 3)
                k = _loguniform(self.rng, 1, cap) if self.rng.random() < 0.5 else self.rng.randint(1, cap)
                op["abort"] = {"step": k}
            if self.rng.random() < 0.25:
                op["abort"]["exc"] = "MemoryError"  # an ordinary Exception instead of a BaseException
        if self.faulty and kind == "read_file" and self.rng.random() < 0.35:
            at = self.rng.choice(["open", "open", "read", "short"])
            op["io_fault"] = {"at": at, "err": self.rng.choice(["ENOENT", "EACCES", "EIO", "EMFILE"]), "frac": self.rng.random()}
        self.ops.append(op)
        if rtype:
            self.live[rtype].append(i)
            if canon:
                self.live["canon"].append(i)
        if op["op"] in ABORT_SITES:
            self.callops.append(i)
        if "abort" in op and not self._in_followup and self.rng.random() < 0.6:
            # what matters is the call *after* the interrupted one: same kind, at once
            self._in_followup = True
            try:
                if kind == "parse" and self.strs and self.rng.random() < 0.7:
                    t = self.rng.choice(self.strs)
                    self._add({"op": "parse", "text": t}, "graph" if t in self.valid_strs else None)
                elif kind in ("read", "read_file") and self.mols:
                    self._add({"op": "read", "text": self.rng.choice(self.mols)}, "graph")
                elif self._args_live(i):
                    self._add({"op": "again", "of": i}, None)
            finally:
                self._in_followup = False
        return i

    def abort_sweep(self):
        """Two uninterrupted calls of one kind (the second measures the warm length),
        a third one interrupted at a uniformly drawn fraction of that length, then
        the calls whose results matter: another one of the kind and a repeat."""
        r = self.rng
        kinds = ["parse"] * 5 + ["serialize", "canon", "read", "write"] + (["permute"] * 4 if self.prop == "C16" else ["permute"])
        kind = r.choice(kinds)
        ab = {"frac": round(r.uniform(0.0, 1.1), 4)}
        if r.random() < 0.25:
            ab["exc"] = "MemoryError"
        self._in_followup = True
        try:
            if kind == "parse":
                vs = [t for t in self.strs if t in self.valid_strs]
                if len(vs) < 1:
                    return
                sx = r.choice(vs)
                if r.random() < 0.5:
                    # phase-stratified: lexing, prediction, rule code, tree walk, listener, graph building
                    site = r.choice([("LexerATNSimulator.py", None), ("ParserATNSimulator.py", None), ("tucanParser.py", None), ("tree/Tree.py", "walk"), ("tree/Tree.py", None), ("parser/parser.py", "enterTuple"), ("parser/parser.py", "_add_atoms"), ("parser/parser.py", "to_graph"), ("graph_utils.py", None)])
                    ab = dict(ab, site=list(site), n=_loguniform(r, 1, 200))
                    ab.pop("frac")
                self._add({"op": "parse", "text": r.choice(vs)}, "graph")
                # the same string once uninterrupted: its length is then the exact estimate
                self._add({"op": "parse", "text": sx}, "graph")
                x = self._add({"op": "parse", "text": sx, "abort": ab}, "graph")
                self._add({"op": "parse", "text": r.choice(self.strs)}, None)
                self._add({"op": "again", "of": x}, "graph")
            elif kind == "read":
                if not self.mols:
                    return
                mx = r.choice(self.mols)
                self._add({"op": "read", "text": r.choice(self.mols)}, "graph")
                self._add({"op": "read", "text": mx}, "graph")
                x = self._add({"op": "read", "text": mx, "abort": ab}, "graph")
                self._add({"op": "read", "text": r.choice(self.mols)}, "graph")
                self._add({"op": "again", "of": x}, "graph")
            else:
                if not self.mols:
                    return
                mx = r.choice(self.mols)
                gs = [self._add({"op": "read", "text": t}, "graph") for t in (r.choice(self.mols), mx, mx)]
                if kind in ("serialize", "write") and r.random() < 0.7:
                    gs = [self._add({"op": "canon", "arg": g}, "graph", canon=True) for g in gs]

                def call(g, extra=None):
                    o = {"op": kind, "arg": g}
                    if kind == "permute":
                        o["seed"] = r.choice(self.seed_palette or [0.5])
                    if kind == "write":
                        o["calc"] = False
                    if extra:
                        o["abort"] = extra
                    rt = {"canon": "graph", "serialize": "string", "write": None, "permute": None if self.multi else "graph"}[kind]
                    return self._add(o, rt, canon=(kind == "canon"))

                call(gs[0])
                call(gs[1])
                x = call(gs[2], ab)
                call(gs[r.randrange(3)])
                self._add({"op": "again", "of": x}, None)
        finally:
            self._in_followup = False

    def _graphs(self):
        return self.live["graph"]

    def source(self):
        r = self.rng
        if self.parse_bias and self.strs and r.random() < self.parse_bias:
            t = r.choice(self.strs)
            return self._add({"op": "parse", "text": t}, "graph" if (t in self.valid_strs and r.random() < 0.2) else None)
        u = r.random()
        if u < 0.40 and self.mols:
            return self._add({"op": "read", "text": r.choice(self.mols)}, "graph")
        if u < 0.40 + self.mult.get("file_p", 0.10) and self.files:
            if self.rewrites and r.random() < self.mult.get("rewrite_p", 0.6):
                path = r.choice(sorted(self.rewrites))
                u2 = r.random()
                if u2 < 0.5:
                    # read, overwrite in place (same byte length), read again
                    self._add({"op": "read_file", "path": path}, "graph")
                    if r.random() < 0.3:
                        self.step()
                if u2 < 0.75:
                    self._add({"op": "fs_write", "path": path, "text": r.choice(self.rewrites[path]), "replace": r.random() < 0.25})
                return self._add({"op": "read_file", "path": path}, "graph")
            return self._add({"op": "read_file", "path": r.choice(self.files)}, "graph")
        # results of inputs that are expected to be rejected rarely become arguments
        # of later ops (those would only be skipped)
        if u < 0.56 and self.bad_mols:
            return self._add({"op": "read", "text": r.choice(self.bad_mols)}, "graph" if r.random() < 0.1 else None)
        if u < 0.60:
            return self._add({"op": "read_file", "path": r.choice(["/sim/none.mol", "/sim/x.sdf", "/sim/noext"])}, None)
        if self.strs:
            t = r.choice(self.strs)
            return self._add({"op": "parse", "text": t}, "graph" if (t in self.valid_strs or r.random() < 0.1) else None)
        return self._add({"op": "read", "text": r.choice(self.mols)}, "graph")

    def step(self):
        r = self.rng
        prop = self.prop
        g = self._graphs()
        if not g:
            return self.source()
        if prop == "C14":
            w = [("source", 22), ("canon", 14), ("serialize", 14), ("parse_reg", 8), ("write", 10), ("read_reg", 5), ("permute", 4), ("again", 8), ("mutate", 3), ("drop", 3), ("gc", 1), ("rng", 4), ("clock", 4), ("edit", 5)]
        elif prop == "C12":
            w = [("source", 12), ("canon", 22), ("serialize", 22), ("parse_reg", 2), ("write", 3), ("read_reg", 1), ("permute", 3), ("again", 18), ("mutate", 9), ("drop", 4), ("gc", 2), ("rng", 1), ("clock", 1), ("edit", 12)]
        else:
            w = [("source", 12), ("canon", 10), ("serialize", 2), ("parse_reg", 1), ("write", 1), ("read_reg", 0), ("permute", 38), ("again", 16), ("mutate", 9), ("drop", 3), ("gc", 2), ("rng", 12), ("clock", 0), ("edit", 6)]
        if self.mult:
            w = [(k, x * self.mult.get(k, 1)) for k, x in w]
        k = _wchoice(r, w)
        if k == "source":
            return self.source()
        if k == "canon":
            return self._add({"op": "canon", "arg": r.choice(g)}, "graph", canon=True)
        if k == "serialize":
            pool = self.live["canon"] if self.live["canon"] and r.random() < 0.8 else g
            return self._add({"op": "serialize", "arg": r.choice(pool)}, "string")
        if k == "parse_reg":
            if self.live["string"]:
                return self._add({"op": "parse", "arg": r.choice(self.live["string"])}, "graph")
            return self.source()
        if k == "write":
            calc = r.random() < 0.12
            a = r.choice(g)
            i = self._add({"op": "write", "arg": a, "calc": calc}, None)
            if not calc:
                self.live["moltext"].append(i)
            elif r.random() < 0.6:
                if r.random() < 0.5:
                    # the same labelled molecule in another insertion order, laid out again
                    h = self._add({"op": "edit", "arg": a, "how": "reorder", "x": r.randrange(1000), "inplace": False}, "graph", canon=(a in self.live["canon"]))
                else:
                    # the caller rewires the very object it has just written (same atoms,
                    # other bonds) and writes it again
                    self._retire(a)
                    h = self._add({"op": "edit", "arg": a, "how": "rewire", "x": r.randrange(1000), "inplace": True}, "graph")
                i = self._add({"op": "write", "arg": h, "calc": True}, None)
            return i
        if k == "read_reg":
            if self.live["moltext"]:
                return self._add({"op": "read", "arg": r.choice(self.live["moltext"])}, "graph")
            return self.source()
        if k == "permute":
            if self.seed_palette:
                seed = r.choice(self.seed_palette) if r.random() < 0.85 else round(r.random(), 3)
            else:
                seed = r.choice([0.0, 0.5, 0.25, 0.999999, round(r.random(), 3), r.random()])
            # canonicalized graphs list their atoms in another order than their labels
            src = self.live["canon"] if (self.live["canon"] and r.random() < 0.5) else g
            i = self._add({"op": "permute", "arg": r.choice(src), "seed": seed}, None)
            if not self.multi:
                self.live["graph"].append(i)
            return i
        if k == "again":
            cands = [j for j in self.callops if self._args_live(j)]
            if not cands:
                return self.source()
            j = r.choice(cands)
            b = self.ops[j]
            while b["op"] == "again":
                b = self.ops[b["of"]]
            rt = {"read": "graph", "read_file": "graph", "parse": "graph", "canon": "graph", "serialize": "string"}.get(b["op"])
            if b["op"] == "permute" and not self.multi:
                rt = "graph"
            if b["op"] == "write" and not b.get("calc"):
                rt = "moltext"
            i = self._add({"op": "again", "of": j}, rt, canon=(b["op"] == "canon"))
            return i
        if k == "edit":
            j = r.choice(g)
            how = r.choice(["chg", "bond", "coords", "all", "all", "del_atom", "reorder", "reorder", "rewire"])
            inplace = r.random() < 0.4 and how != "reorder"
            was_canon = j in self.live["canon"]
            if inplace:
                self._retire(j)
            return self._add({"op": "edit", "arg": j, "how": how, "x": r.randrange(1000), "inplace": inplace}, "graph", canon=was_canon)
        if k == "mutate":
            j = r.choice(g)
            self._retire(j)
            how = r.choice(["node_attr", "node_attr", "node_attr_new", "node_attr_del", "edge_attr", "edge_attr", "edge_attr", "del_edge", "add_edge", "del_node", "graph_attr", "clear_all"])
            return self._add({"op": "mutate", "reg": j, "how": how, "x": r.randrange(1000)})
        if k == "drop":
            j = r.choice(g)
            self._retire(j)
            i = self._add({"op": "drop", "reg": j})
            if r.random() < 0.7:
                # new objects right after a drop are the ones that re-use its identity
                for _ in range(r.randint(1, 3)):
                    i = self.source()
                    if r.random() < 0.6 and self.live["graph"]:
                        i = self._add({"op": "canon", "arg": self.live["graph"][-1]}, "graph", canon=True)
            return i
        if k == "gc":
            return self._add({"op": "gc"})
        if k == "rng":
            how = r.choice(["seed", "seed", "draw", "draw", "shuffle", "setstate"])
            x = r.choice([0, 1, 0.5, 42, r.random()]) if how == "seed" else r.randrange(1, 60)
            return self._add({"op": "rng_perturb", "how": how, "x": x})
        if k == "clock":
            if r.random() < 0.4:
                return self._add({"op": "clock_jump", "to": r.choice(_CLOCKS), "delta": 0})
            d = r.choice([1, 59, 60, 61, 3600, 86400, 31536000, -1, -60, -86400, -31536000 * 30, 31536000 * 100]) * r.choice([1, 1, 0.5])
            return self._add({"op": "clock_jump", "delta": d})
        return self.source()

    def _args_live(self, j):
        b = self.ops[j]
        while b["op"] == "again":
            b = self.ops[b["of"]]
        if "arg" not in b:
            return True
        a = b["arg"]
        return any(a in v for v in self.live.values())

    def _retire(self, j):
        for v in self.live.values():
            if j in v:
                v.remove(j)


def gen_spec(run_seed, prop, pool, hashseeds, knobs=None):
    """The spec of a run is a pure function of (run_seed, prop, pool, hashseeds)."""
    knobs = knobs or {}
    rng = Random(run_seed)
    cls = knobs.get("cls") or _wchoice(rng, CLASS_MIX[prop])
    multi = cls in ("C", "D")
    nthreads = rng.choice([2, 2, 2, 3, 3, 4]) if multi else 1
    hashseed = hashseeds[rng.randrange(len(hashseeds))]
    valid_strs = pool.str_pipeline + pool.str_respelled
    all_strs = valid_strs + pool.str_mutated + pool.str_boundary + pool.str_semantic
    k_m = rng.randint(1, 5)
    k_s = rng.randint(1, 6)
    mols = rng.sample(pool.mol_valid, min(k_m, len(pool.mol_valid)))
    if rng.random() < (0.6 if prop == "C16" else 0.25) and mols:
        # molecules of equal atom count meet in one run (caches keyed by size/labels)
        n0 = pool.meta[mols[0]].get("n")
        same = [t for t in pool.mol_valid if pool.meta[t].get("n") == n0 and t not in mols]
        if n0 is not None and same:
            mols = mols[:2] + rng.sample(same, min(len(same), 3))
    # swarm: every run stresses its own mix of operations
    mult = {k: rng.choice([0.3, 1, 1, 1, 3]) for k in ("source", "canon", "serialize", "parse_reg", "write", "read_reg", "permute", "again", "mutate", "drop", "gc", "rng", "clock", "edit")}
    mult["rewrite_p"] = rng.choice([0.3, 0.6, 0.9])
    mult["file_p"] = rng.choice([0.05, 0.10, 0.10, 0.35])
    palette = [rng.choice([0.0, 0.5, 0.25, 0.999999, 0.42, round(rng.random(), 2), rng.random()]) for _ in range(rng.randint(1, 3))]
    if rng.random() < 0.3:
        # seeds that differ only far behind the decimal point (0.1 + 0.2 vs 0.3 style)
        s0 = rng.choice(palette)
        palette.append(rng.choice([s0 + 1e-12, s0 + 3e-11, s0 * (1 + 2e-16) if s0 else 5e-324, 0.1 + 0.2 if s0 == 0.3 else s0 + 1e-15]))
        if rng.random() < 0.3:
            palette += [0.3, 0.1 + 0.2]
    rco = Random(H(run_seed, "corner"))
    if rco.random() < 0.2:
        # a hand-specified format corner joins the run's molecules (own stream)
        corners = [t for t in pool.mol_valid if str(pool.meta[t].get("src", "")).startswith("corner")]
        if corners:
            mols.insert(rco.randrange(len(mols) + 1), rco.choice(corners))
    # a molecule and its redrawing (same skeleton and atom order) often meet in one run
    for t in list(mols):
        r = pool.redrawn.get(t)
        if r and r not in mols and rng.random() < 0.7:
            mols.append(r)
    strs = []
    for _ in range(k_s):
        u = rng.random()
        src = valid_strs if u < 0.5 else (pool.str_mutated if u < 0.7 else (pool.str_semantic if u < 0.85 else pool.str_boundary))
        if src:
            strs.append(rng.choice(src))
    if prop in ("C12", "C16"):
        strs = [s for s in strs if s in valid_strs] or ([rng.choice(valid_strs)] if valid_strs else [])
    bad = rng.sample(pool.mol_bad, min(2, len(pool.mol_bad))) if prop == "C14" else []
    files = {}
    for t in mols[:3]:
        files[f"/sim/{t}.mol"] = t
    if mols:
        files["/sim/x.sdf"] = mols[0]
        files["/sim/noext"] = mols[0]
    fpaths = [p for p in files if p.endswith(".mol")]

    def client(nops, own_rng, t=0):
        # files only this client rewrites (same byte length, other molecule)
        rewrites = {}
        for m in mols:
            v = pool.samesize.get(m)
            if v:
                path = f"/sim/c{t}-{m}.mol"
                files[path] = m
                rewrites[path] = [v, m, v]
                if pool.redrawn.get(m):
                    rewrites[path].append(pool.redrawn[m])
        cg = _ClientGen(own_rng, prop, cls, mols, strs, bad, fpaths, multi, rewrites)
        cg.valid_strs = set(valid_strs)
        cg.mult = mult
        cg.seed_palette = palette
        if cg.faulty and own_rng.random() < 0.55:
            cg.abort_sweep()
        while len(cg.ops) < nops:
            cg.step()
        return cg.ops

    max_ops = knobs.get("max_ops", 8 if prop == "C14" else 14)
    threads = []
    race_kind = None
    rsh = Random(H(run_seed, "shared"))  # its own stream: the other run kinds keep their specs
    shared_warm = None
    if multi and mols and prop == "C14" and (knobs.get("shared") or rsh.random() < (0.15 if knobs.get("race") else 0.08)):
        # "shared-object run": the warm-up makes a few graphs once and every client
        # holds the very same objects, handing them to the nominally read-only
        # operations at the same time (one canonicalized molecule serialized, written
        # and canonicalized again by several threads)
        race_kind = "shared"
        k = rsh.randint(1, 2)
        head = []
        for j in range(k):
            head += [{"op": "read", "text": rsh.choice(mols), "share": f"s{j}"}, {"op": "canon", "arg": 2 * j, "share": f"c{j}"}]
        shared_warm = [dict(o) for o in head]
        if rsh.random() < 0.5:
            shared_warm += [{"op": "serialize", "arg": 2 * j + 1} for j in range(k)]
        mix = rsh.choice([("serialize",), ("serialize",), ("serialize", "serialize", "canon", "write"), ("serialize", "canon"), ("serialize", "write"), ("canon", "write")])
        for t in range(nthreads):
            r2 = Random(H(run_seed, "shared", t))
            ops = [dict(o) for o in head]
            for _ in range(r2.randint(4, 14)):
                kind = r2.choice(mix)
                j = r2.randrange(k)
                if kind == "serialize":
                    ops.append({"op": "serialize", "arg": 2 * j + 1})
                elif kind == "write":
                    ops.append({"op": "write", "arg": 2 * j + r2.randrange(2), "calc": r2.random() < 0.3})
                else:
                    ops.append({"op": "canon", "arg": 2 * j + r2.randrange(2)})
            threads.append(ops)
    elif multi and mols and valid_strs and (knobs.get("race") or rng.random() < 0.15):
        # "race run": every client does the same kind of (cheap, warm) operation many
        # times on different inputs, so that same-kind calls overlap all the time
        race_kind = rng.choice(["read", "read", "canon", "serialize", "write", "parse", "pipeline"])
        rstrs = [s for s in strs if s in valid_strs] or [rng.choice(valid_strs)]
        for t in range(nthreads):
            r2 = Random(H(run_seed, "race", t))
            ops = []
            n = r2.randint(8, 20)
            if race_kind == "read":
                ops = [{"op": "read", "text": r2.choice(mols)} for _ in range(n)]
            elif race_kind == "parse":
                ops = [{"op": "parse", "text": r2.choice(rstrs)} for _ in range(n)]
            elif race_kind == "pipeline":
                for _ in range(max(2, n // 3)):
                    b = len(ops)
                    ops += [{"op": "read", "text": r2.choice(mols)}, {"op": "canon", "arg": b}, {"op": "serialize", "arg": b + 1}]
            else:
                k = r2.randint(1, 3)
                ops = [{"op": "read", "text": r2.choice(mols)} for _ in range(k)]
                if race_kind in ("serialize", "write") and r2.random() < 0.7:
                    ops += [{"op": "canon", "arg": j} for j in range(k)]
                    base = k
                else:
                    base = 0
                for _ in range(n):
                    o = {"op": race_kind, "arg": base + r2.randrange(k)}
                    if race_kind == "write":
                        o["calc"] = False
                    ops.append(o)
            threads.append(ops)
    storm = multi and rng.random() < 0.45 and strs and mols and not race_kind
    storm_kind = rng.choice(["parse", "parse", "read", "pipeline"])
    for t in range(nthreads if not race_kind else 0):
        ops = client(rng.randint(1, max_ops), Random(H(run_seed, "client", t)), t)
        if storm:
            if storm_kind == "parse":
                # all clients start by parsing the same strings (cold-cache contention)
                head = [{"op": "parse", "text": s} for s in strs[: rng.randint(1, 2)]]
                if rng.random() < 0.5:
                    rng.shuffle(head)
            elif storm_kind == "read":
                # all clients are inside the molfile readers at the same time
                head = [{"op": "read", "text": rng.choice(mols)} for _ in range(rng.randint(2, 4))]
            else:
                # all clients run the pipeline on different molecules at the same time
                head = [{"op": "read", "text": rng.choice(mols)}, {"op": "canon", "arg": 0}, {"op": "serialize", "arg": 1}]
                if rng.random() < 0.5:
                    head.append({"op": "write", "arg": 1, "calc": False})
            shift = len(head)
            for o in ops:
                for f in ("arg", "of", "reg"):
                    if f in o:
                        o[f] += shift
            ops = head + ops
        threads.append(ops)
    # warm-up pre-history
    u = rng.random()
    nw = 0 if (u < 0.4 or storm and u < 0.8) else _loguniform(rng, 1, knobs.get("max_warmup", 40))
    if u > 0.96:
        # a long process history (size-bounded caches, counters): hundreds of earlier calls
        nw = rng.randint(300, knobs.get("max_long_history", 1200))
    warm = []
    if shared_warm is not None:
        nw = 0
        warm = shared_warm
    elif race_kind:
        # caches warm, so that the racing operations are short and overlap densely
        nw = 0
        warm = [{"op": "parse", "text": t} for t in sorted({o["text"] for ops in threads for o in ops if o["op"] == "parse"})][:6]
        if not warm and rng.random() < 0.5:
            warm = [{"op": "read", "text": mols[0]}, {"op": "canon", "arg": 0}, {"op": "serialize", "arg": 1}]
    if nw:
        long_history = nw >= 150
        if long_history:
            # many *distinct* inputs: size-bounded caches fill up, wrap around and evict
            w_mols = rng.sample(pool.mol_valid, min(40, len(pool.mol_valid)))
            w_strs = rng.sample(valid_strs, min(len(valid_strs), rng.choice([140, 200, 400]))) + rng.sample(all_strs, min(10, len(all_strs)))
        else:
            w_mols = rng.sample(pool.mol_valid, min(4, len(pool.mol_valid)))
            w_strs = [rng.choice(all_strs) for _ in range(6)] if all_strs else []
        wc = _ClientGen(Random(H(run_seed, "warm")), "C14", "A", w_mols, w_strs, bad, [], False)
        if long_history:
            wc.mult = {"source": 12, "again": 2}
            wc.parse_bias = rng.choice([0.9, 0.9, 0.5, 0.0])
        wc.valid_strs = set(valid_strs)
        while len(wc.ops) < nw:
            wc.step()
        warm = wc.ops
    used = set()
    for ops in threads + [warm]:
        for o in ops:
            if "text" in o:
                used.add(o["text"])
    used.update(files.values())
    spec = {
        "seed": run_seed,
        "prop": prop,
        "cls": cls,
        "hashseed": hashseed,
        "trace": True,
        "profile": "wide" if rng.random() < 0.08 else "std",
        "mean_burst": _wchoice(rng, [(2, 2), (5, 3), (12, 3), (40, 2)]) if race_kind else _wchoice(rng, [(2, 1), (5, 2), (12, 3), (40, 4), (120, 4), (400, 3), (1500, 2)]),
        "race_kind": race_kind,
        "sched_seed": rng.randrange(1 << 30),
        "schedule": None,
        "gc_auto": rng.choice([None, None, None, [700, 10, 10], [100, 5, 5], [20, 2, 2]]),
        "stall": rng.randrange(nthreads) if (cls == "D" and rng.random() < 0.3) else None,
        "clock_start": rng.choice(_CLOCKS) if rng.random() < 0.5 else float(rng.randrange(0, 4102444800)),
        "focus_conflicts": rng.random() < (0.8 if race_kind else 0.5),
        "fs_mtime_gran": rng.choice([1e-9, 1e-6, 1e-3, 1.0, 1.0, 2.0, 2.0]),
        "texts": {t: pool.texts[t] for t in sorted(used)},
        "files": files,
        "warmup": warm,
        "threads": threads,
    }
    return spec
