"""Child-side executor: runs one spec inside a process forked from a template.

Owns every source of nondeterminism of the run: which client thread runs
(baton passing at sys.settrace events), the clock the molfile writer reads, the
file system the molfile reader opens, ambient use of the global `random`
module, asynchronous aborts, garbage collection points.  Never draws from the
global `random` module for its own decisions and never reads a real clock in
anything that reaches the event log.
"""
import sys
import os
import gc
import re
import json
import errno
import hashlib
import builtins
import threading
import _thread
import shutil
import random as G_RANDOM  # the process-global RNG: part of the system under test
from random import Random
from datetime import datetime, timedelta

from . import model

MISSING = object()
STEP_SECONDS = 50e-6  # simulated seconds per executed step
_ADDR = re.compile(r"0x[0-9a-fA-F]+")


class SimAbort(BaseException):
    """Asynchronous termination injected by the simulator (KeyboardInterrupt-like)."""


class SimMemoryError(MemoryError):
    """Injected allocation failure: unlike SimAbort it is an ordinary Exception, so
    `except Exception` handlers of the code under test see it."""


class HarnessError(BaseException):
    """A failure of the simulator itself; never a verdict about the library."""


# --------------------------------------------------------------------------
# locks created by the library under test become scheduler-aware
# --------------------------------------------------------------------------
CURRENT = None  # the _Sim of the run executing in this process (None in a template)


class SimLock:
    """Stand-in for threading.Lock / RLock objects that *the library under test*
    creates.  A real lock held by a pre-empted client would block the next
    client while it holds the baton (a deadlock made by the simulator); this
    one hands the baton on instead.  Exactly one client runs at any time, so the
    state needs no atomicity of its own."""

    _reentrant = False

    def __init__(self):
        self._owner = None
        self._count = 0

    def _me(self):
        sim = CURRENT
        return (sim.cur if sim is not None and sim.cur is not None else threading.get_ident()), sim

    def acquire(self, blocking=True, timeout=-1):
        me, sim = self._me()
        if self._reentrant and self._owner is not None and self._owner is me:
            self._count += 1
            return True
        while self._owner is not None:
            if not blocking:
                return False
            sched = getattr(sim, "sched", None) if sim is not None else None
            if sched is None or not isinstance(me, Client):
                raise HarnessError("library lock contended outside a scheduled run")
            sim.lock_waits += 1
            me.blocked_on = self
            # the scheduler itself must not be traced as if it were library code
            # (it draws from random.Random, whose module is a profiled file)
            saved, me.in_op = me.in_op, False
            try:
                sched.switch(None)
            finally:
                me.in_op = saved
        self._owner = me
        self._count = 1
        return True

    def release(self):
        if self._owner is None:
            raise RuntimeError("release unlocked lock")
        self._count -= 1
        if self._count > 0:
            return
        self._owner = None
        sim = CURRENT
        if sim is not None and getattr(sim, "sched", None) is not None:
            for c in sim.sched.clients:
                if c.blocked_on is self:
                    c.blocked_on = None

    def locked(self):
        return self._owner is not None

    __enter__ = acquire

    def __exit__(self, *a):
        self.release()

    def _at_fork_reinit(self):
        self._owner = None
        self._count = 0


class SimRLock(SimLock):
    _reentrant = True


def _patch_lock_factories():
    """threading.Lock()/RLock() called from a tucan module yields a SimLock."""
    real_lock, real_rlock = threading.Lock, threading.RLock

    def _from_library():
        f = sys._getframe(2)
        return str(f.f_globals.get("__name__", "")).startswith("tucan")

    def Lock():
        return SimLock() if _from_library() else real_lock()

    def RLock(*a, **kw):
        return SimRLock() if _from_library() else real_rlock(*a, **kw)

    threading.Lock = Lock
    threading.RLock = RLock


# --------------------------------------------------------------------------
# binding to the tree under test (done once in the template, before forking)
# --------------------------------------------------------------------------
_TIME_SEAM_INSTALLED = False


def _install_time_seam():
    """time.time / monotonic / perf_counter (and their _ns forms) follow the
    simulated clock while a client is inside a library operation; everywhere
    else (coordinator, node bookkeeping, outside operations) they stay real.
    Installed in the template before the library is imported, so that
    `from time import monotonic` in library code binds the seam too.  The pinned
    tree never reads these clocks: the seam exists for code that starts to."""
    global _TIME_SEAM_INSTALLED
    if _TIME_SEAM_INSTALLED:
        return
    import time as _t

    def active():
        sim = CURRENT
        if sim is not None:
            cl = sim.cur
            if cl is not None and cl.in_op and cl.tid == _thread.get_ident():
                return sim
        return None

    def wall(sim):
        sim.clock.reads += 1
        return sim.clock.now(sim.gstep)

    def mono(sim):
        sim.clock.reads += 1
        c = sim.clock
        v = 1000.0 + max(0.0, c.jumped) + (0 if c.frozen else sim.gstep * STEP_SECONDS)
        c.mono_max = v = max(c.mono_max, v)  # never runs backwards
        return v

    def mk(real, fn, ns):
        def seam():
            sim = active()
            if sim is None:
                return real()
            x = fn(sim)
            return int(x * 1e9) if ns else x

        seam.__name__ = real.__name__
        seam.__wrapped__ = real
        return seam

    for name, fn in (("time", wall), ("monotonic", mono), ("perf_counter", mono)):
        setattr(_t, name, mk(getattr(_t, name), fn, False))
        setattr(_t, name + "_ns", mk(getattr(_t, name + "_ns"), fn, True))
    _TIME_SEAM_INSTALLED = True


class T:
    bound = False


def bind(repo):
    """Import the library under test from `repo` and everything it imports lazily."""
    import importlib
    import pkgutil

    repo = os.path.realpath(repo)
    if sys.path[0] != repo:
        sys.path.insert(0, repo)
    import antlr4

    for m in pkgutil.walk_packages(antlr4.__path__, "antlr4."):
        try:
            importlib.import_module(m.name)
        except Exception:
            pass
    import numpy  # noqa: F401
    import scipy  # noqa: F401
    import scipy.optimize  # noqa: F401
    import scipy.sparse  # noqa: F401
    import scipy.sparse.linalg  # noqa: F401
    import networkx as nx
    import networkx.drawing.layout  # noqa: F401
    import networkx.algorithms.shortest_paths.unweighted  # noqa: F401
    import networkx.algorithms.shortest_paths.weighted  # noqa: F401
    import networkx.algorithms.shortest_paths.generic  # noqa: F401
    import igraph  # noqa: F401

    _patch_lock_factories()
    _install_time_seam()
    import tucan
    import tucan.io
    import tucan.io.molfile_reader
    import tucan.io.molfile_writer
    import tucan.canonicalization
    import tucan.serialization
    import tucan.graph_utils
    import tucan.graph_attributes as ga
    import tucan.parser.parser

    if not os.path.realpath(tucan.__file__).startswith(repo + os.sep):
        raise HarnessError(f"tucan imported from {tucan.__file__}, not from {repo}")
    T.repo = repo
    T.nx = nx
    T.tucan = tucan
    T.reader_mod = tucan.io.molfile_reader
    T.writer_mod = tucan.io.molfile_writer
    T.read = tucan.io.graph_from_molfile_text
    T.read_file = tucan.io.graph_from_file
    T.parse = tucan.io.graph_from_tucan
    T.write = tucan.io.graph_to_molfile
    T.canon = tucan.canonicalization.canonicalize_molecule
    T.serialize = tucan.serialization.serialize_molecule
    T.permute = tucan.graph_utils.permute_molecule
    T.EXPLORED = getattr(ga, "EXPLORED", "explored")
    T.PARTITION = getattr(ga, "PARTITION", "partition")
    T.X = getattr(ga, "X_COORD", "x_coord")
    T.Y = getattr(ga, "Y_COORD", "y_coord")
    T.Z = getattr(ga, "Z_COORD", "z_coord")
    T.CHG = getattr(ga, "CHG", "chg")
    T.BOND_TYPE = getattr(ga, "BOND_TYPE", "bond_type")
    T.file_modes = _FileModes(repo)
    T.bound = True
    # warm a few lazily initialised corners of the *dependencies* that are not
    # under test and that would otherwise import modules lazily at first use
    g = nx.path_graph(3)
    nx.kamada_kawai_layout(g, dim=2)
    nx.density(g)
    igraph.Graph.from_networkx(g).canonical_permutation(color=[0, 0, 0])


class _FileModes:
    """0 = not a pre-emption point, 1 = call events, 2 = line events."""

    LINE_ANTLR = (
        "antlr4/atn/ParserATNSimulator.py",
        "antlr4/atn/LexerATNSimulator.py",
        "antlr4/PredictionContext.py",
        "antlr4/dfa/",
        "antlr4/atn/ATN.py",
        "antlr4/atn/ATNConfigSet.py",
        "antlr4/LL1Analyzer.py",
    )

    def __init__(self, repo):
        self.repo_pkg = os.path.join(repo, "tucan") + os.sep
        self.random_file = os.path.realpath(G_RANDOM.__file__)
        self.std = {}
        self.wide = {}

    def _classify(self, fn, wide):
        if fn.startswith("<"):
            return 0
        rp = os.path.realpath(fn)
        if rp.startswith(self.repo_pkg) or rp == self.random_file:
            return 2
        p = rp.replace(os.sep, "/")
        if "/antlr4/" in p:
            for s in self.LINE_ANTLR:
                if s in p:
                    return 2
            return 1
        if "/networkx/" in p:
            return 2 if wide else 1
        if "/igraph/" in p:
            return 1
        return 0

    def table(self, wide):
        return _ModeTable(self, wide)


class _ModeTable(dict):
    def __init__(self, fm, wide):
        super().__init__()
        self.fm = fm
        self.wide = wide

    def __missing__(self, fn):
        v = self.fm._classify(fn, self.wide)
        self[fn] = v
        return v


# --------------------------------------------------------------------------
# result encoding (hash-seed independent; order sensitive where observable)
# --------------------------------------------------------------------------
def _val(v):
    return _ADDR.sub("0x?", repr(v))


def enc_graph(g):
    ex = T.EXPLORED
    nodes = [[_val(n), sorted((str(k), _val(v)) for k, v in d.items() if k != ex)] for n, d in g.nodes(data=True)]
    edges = [[_val(u), _val(v), sorted((str(k), _val(x)) for k, x in d.items())] for u, v, d in g.edges(data=True)]
    return {"t": "graph", "nodes": nodes, "edges": edges}


def enc_exc(e, tmpdir=None):
    msg = _ADDR.sub("0x?", str(e))
    if tmpdir:
        msg = msg.replace(tmpdir, "/sim")
    return {"t": "exc", "type": type(e).__name__, "msg": msg}


def enc_string(s):
    return {"t": "str", "s": s}


def enc_moltext(s, calc):
    """Header block (the three lines before the counts line: name, program +
    timestamp, comment) is held apart from the body; only the body is digested."""
    lines = s.split("\n")
    body = lines[3:]
    coords = None
    if calc:
        coords = []
        for l in body:
            m = _ATOMLINE.match(l)
            if m:
                try:
                    coords.append([float(m.group(2)), float(m.group(3)), float(m.group(4))])
                except ValueError:
                    coords.append([m.group(2), m.group(3), m.group(4)])
        body = [_mask_coords(l) for l in body]
    return {"t": "mol", "body": body, "hdr": lines[:3], "coords": coords}


_ATOMLINE = re.compile(r"^(M  V30 \d+ \S+) (\S+) (\S+) (\S+)( .*)$")


def _mask_coords(line):
    m = _ATOMLINE.match(line)
    if not m:
        return line
    return f"{m.group(1)} # # #{m.group(5)}"


def digest(enc):
    if enc.get("t") == "mol":
        enc = {"t": "mol", "body": enc["body"]}  # the header block is compared separately
    return hashlib.sha256(json.dumps(enc, sort_keys=True, separators=(",", ":")).encode()).hexdigest()[:24]


def snapshot(g):
    return (
        [(n, dict(d)) for n, d in g.nodes(data=True)],
        [(u, v, dict(d)) for u, v, d in g.edges(data=True)],
        dict(g.graph),
    )


def _strip(d, drop):
    return {k: v for k, v in d.items() if k not in drop}


def snap_diff(snap, g, tolerate_new_node_keys=False):
    """None if g equals its snapshot (scratch flag ignored), else a description."""
    ex = (T.EXPLORED,)
    nodes, edges, gattrs = snap
    cur_nodes = list(g.nodes(data=True))
    if [n for n, _ in cur_nodes] != [n for n, _ in nodes]:
        return f"node list changed: {[n for n, _ in nodes]} -> {[n for n, _ in cur_nodes]}"
    for (n, d0), (_, d1) in zip(nodes, cur_nodes):
        a, b = _strip(d0, ex), _strip(d1, ex)
        if tolerate_new_node_keys:
            b = {k: v for k, v in b.items() if k in a}
        if a != b:
            return f"attributes of node {n} changed: {a} -> {b}"
    cur_edges = list(g.edges(data=True))
    if [(u, v) for u, v, _ in cur_edges] != [(u, v) for u, v, _ in edges]:
        return f"edge list changed: {[(u, v) for u, v, _ in edges]} -> {[(u, v) for u, v, _ in cur_edges]}"
    for (u, v, d0), (_, _, d1) in zip(edges, cur_edges):
        if d0 != d1:
            return f"attributes of edge {(u, v)} changed: {d0} -> {d1}"
    cur_g = dict(g.graph)
    if tolerate_new_node_keys:
        # the same tolerance at graph level: keys that did not exist before the
        # call are scratch, not "a chemically meaningful attribute"
        cur_g = {k: v for k, v in cur_g.items() if k in gattrs}
    if gattrs != cur_g:
        return f"graph attributes changed: {gattrs} -> {cur_g}"
    return None


# --------------------------------------------------------------------------
# structural monitors (M12 canon clause, M16 permute clause)
# --------------------------------------------------------------------------
def _pos(d):
    return (d.get(T.X, 0), d.get(T.Y, 0), d.get(T.Z, 0))


def _tracer_map(g, h):
    """node of g -> node of h via the unique coordinate triple; None + reason if impossible."""
    hx = {}
    for n, d in h.nodes(data=True):
        p = _pos(d)
        if p in hx:
            return None, f"two result nodes carry position {p}"
        hx[p] = n
    f = {}
    for n, d in g.nodes(data=True):
        p = _pos(d)
        if p not in hx:
            return None, f"atom {n} (position {p}) has no counterpart in the result"
        f[n] = hx[p]
    if len(set(f.values())) != len(f):
        return None, "renaming is not one-to-one"
    return f, None


def check_renaming(g, h, ignore_attrs):
    """h must be g under a bijective renaming, attributes carried along."""
    if h.number_of_nodes() != g.number_of_nodes():
        return f"atom count changed {g.number_of_nodes()} -> {h.number_of_nodes()}"
    if h.number_of_edges() != g.number_of_edges():
        return f"bond count changed {g.number_of_edges()} -> {h.number_of_edges()}"
    f, why = _tracer_map(g, h)
    if f is None:
        return why
    for n, d in g.nodes(data=True):
        a = _strip(d, ignore_attrs)
        b = _strip(h.nodes[f[n]], ignore_attrs)
        if a != b:
            return f"atom {n}->{f[n]} attributes differ: {a} vs {b}"
    he = {frozenset((u, v)): d for u, v, d in h.edges(data=True)}
    if len(he) != h.number_of_edges():
        return "result has parallel/self edges"
    for u, v, d in g.edges(data=True):
        e = frozenset((f[u], f[v]))
        if e not in he:
            return f"bond {u}-{v} has no image {f[u]}-{f[v]}"
        if he[e] != d:
            return f"bond {u}-{v} attributes differ: {d} vs {he[e]}"
    return None


def check_canon(g, h):
    n = g.number_of_nodes()
    if set(h.nodes) != set(range(n)):
        return f"result labels are not 0..{n - 1}: {sorted(h.nodes, key=repr)[:12]}"
    return check_renaming(g, h, (T.PARTITION, T.EXPLORED))


def check_permute(g, h):
    if set(h.nodes) != set(g.nodes):
        return "label set changed"
    hl = list(h.nodes)
    if hl != sorted(hl):
        return f"atoms not listed in label order: {hl[:12]}"
    r = check_renaming(g, h, (T.EXPLORED,))
    if r:
        return r
    n, m = g.number_of_nodes(), g.number_of_edges()
    if m >= 2 and m != n * (n - 1) // 2:
        ge = {frozenset(e) for e in g.edges}
        hh = {frozenset(e) for e in h.edges}
        if ge == hh:
            return "edge set unchanged although the molecule has >=2 bonds and is not complete"
    return None


# --------------------------------------------------------------------------
# seams: clock, file system, imports
# --------------------------------------------------------------------------
_EPOCH = datetime(1970, 1, 1)
_TMIN = (datetime(1, 1, 2) - _EPOCH).total_seconds()
_TMAX = (datetime(9999, 12, 31, 23, 59) - _EPOCH).total_seconds()


class _Clock:
    def __init__(self, start):
        self.start = float(start)
        self.jumped = 0.0
        self.frozen = False
        self.reads = 0
        self.mono_max = 0.0

    def now(self, gstep):
        t = self.start + self.jumped + (0 if self.frozen else gstep * STEP_SECONDS)
        return min(max(t, _TMIN), _TMAX)


def _make_fake_datetime(sim):
    class SimDateTime(datetime):
        @classmethod
        def now(cls, tz=None):
            sim.clock.reads += 1
            t = sim.clock.now(sim.gstep)
            return _EPOCH + timedelta(seconds=t)

        @classmethod
        def utcnow(cls):
            return cls.now()

        @classmethod
        def today(cls):
            return cls.now()

    return SimDateTime


class _SimFile:
    def __init__(self, sim, path, content, fault):
        self.sim, self.path, self.content, self.fault = sim, path, content, fault
        self.closed = False

    def read(self, *a):
        f = self.fault
        if f and f["at"] == "read":
            self.sim.fire_fault("io_error", f"read:{f['err']}")
            raise OSError(getattr(errno, f["err"]), os.strerror(getattr(errno, f["err"])), "/sim/" + os.path.basename(self.path))
        if f and f["at"] == "short":
            self.sim.fire_fault("io_error", "short_read")
            return self.content[: int(len(self.content) * f.get("frac", 0.5))]
        return self.content

    def close(self):
        self.closed = True

    def __enter__(self):
        return self

    def __exit__(self, *a):
        self.closed = True
        return False

    def __iter__(self):
        return iter(self.read().splitlines(True))


class _Sim:
    """Everything a run owns."""

    def __init__(self, spec):
        self.spec = spec
        self.gstep = 0
        self.clock = _Clock(spec.get("clock_start", 946684800.0))
        self.log = hashlib.sha256()
        self.events = [] if spec.get("full") else None
        self.n_events = 0
        self.faults = {}
        self.probes = {}
        self.violations = []
        self.cur = None  # client holding the baton
        self.tmpdir = None
        self.fs_opens = 0
        self.fs_writes = 0
        self.lock_waits = 0
        self.sched = None
        self.sw_sig = hashlib.sha256()
        self.switches = 0
        self.conflict_pairs = set()
        self.fingerprints = set()
        self.dropped_ids = set()

    def materialise(self, path, text, replace=False):
        """The simulated file also exists on a real tmpfs (for code that stats or
        opens it without going through the seam); its timestamps come from the
        simulated clock at the granularity of the simulated file system."""
        real = os.path.join(self.tmpdir, os.path.basename(path))
        if replace:
            # new file under the old name (editor-style save): another inode
            try:
                os.unlink(real)
            except OSError:
                pass
        with builtins.open(real, "w", newline="") as f:
            f.write(text)
        gran = float(self.spec.get("fs_mtime_gran") or 1e-9)
        t = max(0.0, self.clock.now(self.gstep))
        ns = int((t // gran) * gran * 1e9) if gran > 1e-9 else int(t * 1e9)
        ns = min(ns, 253402300799 * 10**9)
        try:
            os.utime(real, ns=(ns, ns))
        except (OSError, OverflowError):
            pass
        return real

    # event log -----------------------------------------------------------
    def ev(self, *e):
        s = json.dumps(e, separators=(",", ":"), default=str)
        self.log.update(s.encode())
        self.log.update(b"\n")
        self.n_events += 1
        if self.events is not None:
            self.events.append(s)

    def fire_fault(self, kind, detail=""):
        if kind == "io_error" and self.cur is not None:
            self.cur.io_fired = True
        self.faults[kind] = self.faults.get(kind, 0) + 1
        self.ev("fault", self.gstep, getattr(self.cur, "name", None), kind, detail)

    def probe(self, name):
        self.probes[name] = self.probes.get(name, 0) + 1

    def violation(self, prop, clause, cl, i, kind, key, detail):
        self.violations.append(
            {"prop": prop, "clause": clause, "c": cl.name, "i": i, "op": kind, "key": key, "detail": str(detail)[:600]}
        )
        self.ev("violation", self.gstep, cl.name, i, prop, clause)

    # file system ---------------------------------------------------------
    def sim_open(self, path, *a, **kw):
        cl0 = self.cur
        saved = cl0.in_op if cl0 is not None else False
        if cl0 is not None:
            cl0.in_op = False  # harness code is never a pre-emption point
        try:
            return self._sim_open(path, *a, **kw)
        finally:
            if cl0 is not None:
                cl0.in_op = saved

    def _sim_open(self, path, *a, **kw):
        p = os.fspath(path)
        base = os.path.basename(p)
        if self.tmpdir is None or os.path.dirname(os.path.abspath(p)) != self.tmpdir:
            return builtins.open(path, *a, **kw)
        self.fs_opens += 1
        cl = self.cur
        fault = cl.io_fault if cl is not None else None
        if fault and fault["at"] == "open":
            self.fire_fault("io_error", f"open:{fault['err']}")
            raise OSError(getattr(errno, fault["err"]), os.strerror(getattr(errno, fault["err"])), "/sim/" + base)
        ov = cl.fs_overlay if cl is not None else {}
        tid = ov["/sim/" + base] if "/sim/" + base in ov else self.spec["files"].get("/sim/" + base)
        if tid is None:
            raise FileNotFoundError(errno.ENOENT, os.strerror(errno.ENOENT), "/sim/" + base)
        return _SimFile(self, p, self.spec["texts"][tid], fault)


# --------------------------------------------------------------------------
# clients and scheduler
# --------------------------------------------------------------------------
class Client:
    def __init__(self, name, ops):
        self.name = name
        self.ops = ops
        self.vals = []  # result object per op (MISSING if none)
        self.snaps = []  # snapshot per op result (graphs only)
        self.keys = []
        self.recs = []
        self.retired = set()
        self.lock = _thread.allocate_lock()
        self.lock.acquire()
        self.in_op = False
        self.import_depth = 0
        self.opstep = 0
        self.abort_at = 0
        self.abort_site = None
        self.abort_n = 0
        self.abort_delivered = False
        self.abort_kind = "abort"
        self.io_fault = None
        self.io_fired = False
        self.fs_overlay = {}  # path -> text id, files this client has (re)written
        self.blocked_on = None  # SimLock this client waits for
        self.sw_ok = True  # an eval-breaker poll happened since this client's last step
        self.prev_code = None
        self.prev_line = 0
        self.abort_pending = False
        self.last_steps = {}  # op kind -> steps of this client's last complete traced op of that kind
        self.finished = False
        self.ops_done = 0
        self.error = None
        self.site = "-"
        self.func = "-"
        self.shared = False
        self.tid = None
        self.shared_regs = {}  # op index -> share name: registers holding an object other clients hold too


class Sched:
    def __init__(self, sim, clients, spec):
        self.sim = sim
        self.clients = clients
        self.rng = Random(spec.get("sched_seed", spec.get("seed", 0)))
        self.mean_burst = max(1, int(spec.get("mean_burst", 50)))
        self.explicit = [tuple(x) for x in spec["schedule"]] if spec.get("schedule") is not None else None
        self.exp_pos = 0
        self.recorded = []
        self.remaining = 0
        self.stall = spec.get("stall")
        self.focus = bool(spec.get("focus_conflicts"))
        self.done_lock = _thread.allocate_lock()
        self.done_lock.acquire()
        self.max_steps = int(spec.get("max_steps", 30_000_000))
        self.max_op_steps = int(spec.get("max_op_steps", 5_000_000))

    def runnable(self):
        live = [c for c in self.clients if not c.finished and c.blocked_on is None]
        if self.stall is not None and len(live) > 1:
            others = [c for c in self.clients if c.name != self.stall]
            if any(c.ops_done * 2 < len(c.ops) for c in others if not c.finished):
                r = [c for c in live if c.name != self.stall]
                if r:
                    return r
        return live

    def pick(self):
        """Next (client, burst).  Explicit schedule first, then the PRNG."""
        run = self.runnable()
        if not run:
            return None, 0
        while self.explicit is not None and self.exp_pos < len(self.explicit):
            name, burst = self.explicit[self.exp_pos]
            self.exp_pos += 1
            for c in run:
                if c.name == name:
                    return c, int(burst)
        if self.explicit is not None:
            # explicit schedule exhausted: run the lowest-numbered client to completion
            return run[0], 1 << 60
        c = run[self.rng.randrange(len(run))] if len(run) > 1 else run[0]
        u = self.rng.random()
        # geometric with the configured mean, at least 1
        import math

        burst = 1 + int(math.log(max(u, 1e-12)) / math.log(1.0 - 1.0 / (self.mean_burst + 1))) if self.mean_burst > 1 else 1
        return c, burst

    def start(self):
        c, b = self.pick()
        if c is None:
            self.done_lock.release()
            return
        self.remaining = b
        self.recorded.append([c.name, b])
        self.sim.cur = c
        c.lock.release()

    def switch(self, frame=None):
        """Called by the client holding the baton at a pre-emption point."""
        sim = self.sim
        cur = sim.cur
        nxt, b = self.pick()
        if nxt is None:
            raise HarnessError("deadlock: every unfinished client waits for a lock of the library under test")
        self.remaining = b
        if nxt is cur:
            if self.recorded and self.recorded[-1][0] == cur.name:
                self.recorded[-1][1] += b
            else:
                self.recorded.append([cur.name, b])
            return
        if frame is not None:
            co = frame.f_code
            cur.site = f"{os.path.basename(co.co_filename)}:{frame.f_lineno}"
            cur.func = f"{os.path.basename(co.co_filename)}:{co.co_name}"
            cur.shared = self.modes[co.co_filename] == 2
        else:
            cur.site = cur.func = "boundary"
            cur.shared = False
        if self.explicit is None and self.focus and cur.shared and nxt.shared and cur.func.split(":")[0] == nxt.func.split(":")[0]:
            # both clients are inside the same module of shared-state code: switch
            # densely while that lasts (conflict-directed scheduling, per-run knob)
            b = min(b, 1 + self.rng.randrange(6))
            self.remaining = b
        self.recorded.append([nxt.name, b])
        sim.switches += 1
        sim.sw_sig.update(f"{cur.name}@{cur.site}>{nxt.name}@{nxt.site};".encode())
        if cur.in_op and nxt.in_op and cur.shared and nxt.shared:
            sim.conflict_pairs.add(tuple(sorted((cur.func, nxt.func))))
        sim.ev("sw", sim.gstep, cur.name, nxt.name, cur.site)
        sim.faults["preempt"] = sim.faults.get("preempt", 0) + 1
        sim.cur = nxt
        nxt.lock.release()
        cur.lock.acquire()

    def finish(self, cl):
        """Client cl has executed all of its ops."""
        cl.finished = True
        nxt, b = self.pick()
        if nxt is None:
            for c in self.clients:
                if not c.finished:
                    c.error = "deadlock: client still waits for a lock of the library under test when all others have finished"
            self.done_lock.release()
            return
        self.remaining = b
        self.recorded.append([nxt.name, b])
        self.sim.cur = nxt
        nxt.lock.release()


class _CheckLines(dict):
    """code object -> lines whose bytecode contains an instruction at which CPython
    (3.12, with the GIL) polls its "eval breaker": the only places where the
    running thread can lose the GIL or have an asynchronous exception (signal
    handler, KeyboardInterrupt) delivered.  Calls into Python code are accounted
    for separately (function entry polls too)."""

    OPS = frozenset(("CALL", "CALL_FUNCTION_EX", "CALL_KW", "JUMP_BACKWARD", "RESUME", "SEND", "YIELD_VALUE", "RETURN_GENERATOR"))

    def __missing__(self, code):
        import dis

        lines = set()
        if code is not None:
            cur = code.co_firstlineno
            for ins in dis.get_instructions(code):
                sl = ins.starts_line
                if sl is not None and sl is not False:
                    cur = sl if isinstance(sl, int) and not isinstance(sl, bool) else cur
                if ins.opname in self.OPS and ins.opname != "RESUME":
                    lines.add(cur)
        v = frozenset(lines)
        self[code] = v
        return v


def make_tracers(sim, sched, modes):
    """Global and local trace functions.  A step is one line event in a profiled
    file or one call event in a call-profiled file, counted only while the
    client is inside an operation and not inside an import.

    A context switch or an asynchronous abort is delivered at a step only if
    CPython could really switch threads / run a signal handler there: at
    function entry, or at a line reached after bytecode that polls the eval
    breaker (a call, a backward jump) or after any Python-level call.  Two
    consecutive lines with nothing but loads and stores between them are atomic
    under the GIL, and the simulator keeps them atomic.  (Injected allocation
    failures are not bound by this: memory can run out anywhere.)"""
    checks = _CheckLines()

    def tick(frame, allowed):
        cl = sim.cur
        sim.gstep += 1
        cl.opstep += 1
        if cl.abort_site is not None:
            co = frame.f_code
            if cl.abort_site[0] in co.co_filename.replace(os.sep, "/") and (cl.abort_site[1] is None or cl.abort_site[1] == co.co_name):
                cl.abort_n -= 1
                if cl.abort_n <= 0:
                    cl.abort_site = None
                    cl.abort_pending = True
        elif cl.abort_at and cl.opstep == cl.abort_at:
            cl.abort_pending = True
        if cl.abort_pending and (allowed or cl.abort_kind == "alloc_failure"):
            cl.abort_pending = False
            cl.abort_delivered = True
            co = frame.f_code
            _abort_probes(sim, frame)
            sim.fire_fault(cl.abort_kind, f"{os.path.basename(co.co_filename)}:{co.co_name}:{frame.f_lineno}")
            raise (SimMemoryError("injected allocation failure") if cl.abort_kind == "alloc_failure" else SimAbort())
        if cl.opstep > sched.max_op_steps or sim.gstep > sched.max_steps:
            raise HarnessError(f"step cap exceeded (op {cl.opstep}, run {sim.gstep})")
        sched.remaining -= 1
        if sched.remaining <= 0 and allowed:
            sched.switch(frame)

    def ltrace(frame, event, arg):
        if event == "line":
            cl = sim.cur
            if cl.in_op and not cl.import_depth:
                allowed = cl.sw_ok or cl.prev_line in checks[cl.prev_code]
                cl.sw_ok = False
                cl.prev_code = frame.f_code
                cl.prev_line = frame.f_lineno
                tick(frame, allowed)
        return ltrace

    def gtrace(frame, event, arg):
        cl = sim.cur
        if cl is None or not cl.in_op or cl.import_depth:
            return None
        # a Python function is being entered: its RESUME polls the eval breaker
        cl.sw_ok = True
        mode = modes[frame.f_code.co_filename]
        if mode == 0:
            return None
        cl.prev_code = None
        cl.prev_line = 0
        tick(frame, True)
        if mode == 2:
            cl.sw_ok = True  # first line of the new frame
            return ltrace
        return None

    return gtrace


_STEP_GUESS = {"parse": 25000, "read": 3000, "read_file": 3000, "canon": 3000, "serialize": 3500, "write": 1000, "permute": 900}
_DFA_FUNCS = ("addDFAState", "addDFAEdge", "computeTargetState", "addDFAEdgeIfNeeded")


def _abort_probes(sim, frame):
    name = frame.f_code.co_name
    fn = frame.f_code.co_filename
    if name in _DFA_FUNCS:
        sim.probe("abort_in_dfa_update")
    if "ATNSimulator" in fn or "PredictionContext" in fn or "/dfa/" in fn.replace(os.sep, "/"):
        sim.probe("abort_in_antlr_shared_state")
    if name == "_assign_final_labels":
        sim.probe("abort_between_explored_resets")
    if fn.endswith("random.py"):
        sim.probe("abort_in_random")
    if fn.endswith(os.path.join("parser", "parser.py")):
        sim.probe("abort_in_listener")
    if fn.endswith(os.path.join("tree", "Tree.py")):
        sim.probe("abort_in_tree_walk")


# --------------------------------------------------------------------------
# operations
# --------------------------------------------------------------------------
def _set_tracer(g):
    """Atoms are traced through renamings by their position.  Where the positions of
    a freshly created molecule are not pairwise different (numerically), the
    harness - acting as the caller - spreads the x coordinates."""
    pos = [_pos(d) for _, d in g.nodes(data=True)]
    try:
        unique = len(set(pos)) == len(pos)
    except TypeError:
        unique = False
    if unique:
        return
    X = T.X
    for i, n in enumerate(list(g.nodes)):
        g.nodes[n][X] = 1000.5 + i


def _arg_value(cl, idx):
    if idx in cl.retired:
        return MISSING
    return cl.vals[idx]


def _antlr_fingerprint():
    try:
        from tucan.parser.tucanParser import tucanParser
        from tucan.parser.tucanLexer import tucanLexer

        v = [len(d._states) for d in tucanParser.decisionsToDFA] + [len(d._states) for d in tucanLexer.decisionsToDFA]
        return hashlib.sha256(repr(v).encode()).hexdigest()[:16], sum(v)
    except Exception:
        return None, 0


def _call(sim, cl, fn, *a, **kw):
    cl.tid = _thread.get_ident()
    cl.in_op = True
    try:
        return fn(*a, **kw)
    finally:
        cl.in_op = False


def exec_op(sim, cl, i, traced):
    spec = sim.spec
    op = cl.ops[i]
    kind = op["op"]
    key = model.op_key(op, cl.keys, spec, cl.fs_overlay, cl.ops)
    cl.keys.append(key)
    base = op
    bi = i
    while base["op"] == "again":
        bi = base["of"]
        base = cl.ops[bi]
    bkind = base["op"]
    rec = {"c": cl.name, "i": i, "op": bkind, "key": key, "st": None}
    if kind == "again":
        rec["again"] = bi
    cl.recs.append(rec)
    cl.vals.append(MISSING)
    cl.snaps.append(None)
    cl.opstep = 0
    cl.sw_ok = True
    cl.prev_code = None
    cl.abort_pending = False
    cl.abort_delivered = False
    cl.abort_at = 0
    cl.abort_site = None
    cl.io_fault = op.get("io_fault")
    ab = op.get("abort")
    cl.abort_kind = "alloc_failure" if (ab and ab.get("exc") == "MemoryError") else "abort"
    if ab and traced:
        if "site" in ab:
            cl.abort_site = (ab["site"][0], ab["site"][1])
            cl.abort_n = int(ab.get("n", 1))
        elif "frac" in ab:
            # a fraction of the length this client last measured for this kind of
            # operation (a fixed guess before the first measurement)
            est = cl.last_steps.get(bkind) or _STEP_GUESS.get(bkind, 3000)
            cl.abort_at = max(1, int(ab["frac"] * est))
        else:
            cl.abort_at = int(ab["step"])
    if traced:
        sys.settrace(sim.gtrace)
    rec["s0"] = sim.gstep
    sim.ev("inv", sim.gstep, cl.name, i, bkind, key)

    res = MISSING
    exc = None
    argobj = MISSING
    adopted = None
    sh = base.get("share")
    if sh is not None and cl.name != "w" and sh in sim.shared and sim.shared[sh][1] == key:
        adopted = sim.shared[sh]
    if "arg" in base and base["arg"] in cl.shared_regs:
        rec["sharg"] = cl.shared_regs[base["arg"]]
    try:
        if adopted is not None:
            # the very object the warm-up made: several clients now hold one graph
            res = adopted[0]
            if "arg" in base and bkind in ("canon",):
                argobj = _arg_value(cl, base["arg"])
            rec["adopted"] = sh
        elif bkind == "read":
            text = spec["texts"][base["text"]] if "text" in base else _arg_value(cl, base["arg"])
            if text is MISSING:
                rec["st"] = "skipped"
            else:
                res = _call(sim, cl, T.read, text)
        elif bkind == "read_file":
            path = os.path.join(sim.tmpdir, os.path.basename(base["path"]))
            res = _call(sim, cl, T.read_file, path)
        elif bkind == "parse":
            text = spec["texts"][base["text"]] if "text" in base else _arg_value(cl, base["arg"])
            if text is MISSING:
                rec["st"] = "skipped"
            else:
                res = _call(sim, cl, T.parse, text)
        elif bkind in ("canon", "serialize", "write", "permute"):
            argobj = _arg_value(cl, base["arg"])
            if argobj is MISSING:
                rec["st"] = "skipped"
            elif bkind == "canon":
                res = _call(sim, cl, T.canon, argobj)
            elif bkind == "serialize":
                res = _call(sim, cl, T.serialize, argobj)
            elif bkind == "write":
                res = _call(sim, cl, T.write, argobj, bool(base.get("calc")))
            else:
                res = _call(sim, cl, T.permute, argobj, base["seed"])
        elif bkind == "edit":
            argobj = _arg_value(cl, base["arg"])
            if argobj is MISSING:
                rec["st"] = "skipped"
            else:
                res = _do_edit(sim, cl, i, base, argobj)
                argobj = MISSING  # the caller's own edit: no argument-unchanged demand
        elif bkind == "fs_write":
            sim.materialise(base["path"], spec["texts"][base["text"]], replace=bool(base.get("replace")))
            cl.fs_overlay[base["path"]] = base["text"]
            sim.fs_writes += 1
            rec["st"] = "harness"
        elif bkind == "mutate":
            _do_mutate(sim, cl, i, base)
            rec["st"] = "harness"
        elif bkind == "drop":
            j = base["reg"]
            v = cl.vals[j]
            if v is not MISSING and model.RESULT_TYPE.get(model.base_op(cl.ops, j)["op"]) == model.GRAPH:
                sim.dropped_ids.add(id(v))
            cl.vals[j] = MISSING
            cl.snaps[j] = None
            cl.retired.add(j)
            del v
            rec["st"] = "harness"
        elif bkind == "gc":
            gc.collect()
            rec["st"] = "harness"
        elif bkind == "rng_perturb":
            sim.fire_fault("rng_perturb", base["how"])
            if base["how"] == "seed":
                G_RANDOM.seed(base["x"])
            elif base["how"] == "draw":
                for _ in range(int(base["x"])):
                    G_RANDOM.random()
            elif base["how"] == "shuffle":
                xs = list(range(int(base["x"])))
                G_RANDOM.shuffle(xs)
            elif base["how"] == "setstate":
                G_RANDOM.setstate(Random(base["x"]).getstate())
            rec["st"] = "harness"
        elif bkind == "clock_jump":
            sim.fire_fault("clock_jump", repr(base["delta"]))
            if "to" in base:
                sim.clock.jumped = base["to"] - sim.clock.start - sim.gstep * STEP_SECONDS
            else:
                sim.clock.jumped += base["delta"]
            rec["st"] = "harness"
        else:
            raise HarnessError(f"unknown op {bkind}")
    except SimAbort as e:
        exc = e
    except HarnessError:
        raise
    except BaseException as e:  # noqa: BLE001 - the library may raise anything
        exc = e
    finally:
        cl.in_op = False
        if traced:
            sys.settrace(sim.gtrace)
        cl.abort_at = 0
        cl.abort_site = None
    rec["s1"] = sim.gstep
    rec["n"] = cl.opstep
    if traced and not cl.abort_delivered and cl.opstep:
        cl.last_steps[bkind] = cl.opstep

    if rec["st"] is None:
        if cl.abort_delivered or cl.io_fired:
            rec["st"] = "faulted"
            res = MISSING
        elif exc is not None:
            if isinstance(exc, SimAbort):
                raise HarnessError("SimAbort without delivery flag")
            if not isinstance(exc, Exception):
                raise exc
            rec["st"] = "exc"
            enc = enc_exc(exc, sim.tmpdir)
            rec["enc"] = enc
            rec["dg"] = digest(enc)
            sim.faults["rejected_input"] = sim.faults.get("rejected_input", 0) + 1
            if bkind == "parse" and "token recognition error" in enc["msg"] and sim.ok_parses > 0:
                sim.probe("lexer_error_under_warm_dfa")
        else:
            rec["st"] = "ok"
            rtype = model.RESULT_TYPE[bkind]
            if rtype == model.GRAPH:
                enc = enc_graph(res)
            elif rtype == model.STRING:
                enc = enc_string(res)
            else:
                enc = enc_moltext(res, bool(base.get("calc")))
                rec["hdr"] = enc["hdr"]
                if enc.get("coords") is not None:
                    rec["coords"] = enc["coords"]
            rec["dg"] = digest(enc) if adopted is None else adopted[3]  # as returned, before the caller set tracer positions
            if spec.get("full") or (rtype == model.STRING and len(res) < 400):
                rec["enc"] = enc
            if bkind == "parse":
                sim.ok_parses += 1
    cl.io_fault = None
    cl.io_fired = False
    sim.ev("ret", sim.gstep, cl.name, i, rec["st"], rec.get("dg"))

    # ---- monitors ------------------------------------------------------
    if rec["st"] in ("ok", "exc", "faulted") and argobj is not MISSING:
        # the argument must be unchanged (M12 / M16)
        ai = base["arg"]
        snap = cl.snaps[ai]
        if snap is not None:
            d = snap_diff(snap, argobj, tolerate_new_node_keys=(bkind == "serialize" or ai in cl.shared_regs))
            if d:
                if bkind in ("canon", "serialize"):
                    sim.violation("C12", "argument_mutated", cl, i, bkind, key, d)
                elif bkind == "permute":
                    sim.violation("C16", "argument_mutated", cl, i, bkind, key, d)
                # write: not demanded by any property directly; later ops on the
                # object are compared with their references (C14)
                cl.snaps[ai] = snapshot(argobj)  # report once
    if rec["st"] == "ok":
        rtype = model.RESULT_TYPE[bkind]
        if rtype == model.GRAPH:
            if id(res) in sim.dropped_ids:
                sim.probe("id_of_dropped_graph_reused")
                sim.dropped_ids.discard(id(res))
            if bkind in model.SOURCE_OPS and adopted is None:
                _set_tracer(res)
            if bkind == "canon":
                d = check_canon(argobj, res)
                if d:
                    sim.violation("C12", "not_a_renaming", cl, i, bkind, key, d)
                if res is argobj:
                    sim.violation("C12", "result_is_argument", cl, i, bkind, key, "canonicalize returned its argument object")
            if bkind == "permute":
                d = check_permute(argobj, res)
                if d:
                    sim.violation("C16", "not_a_faithful_copy", cl, i, bkind, key, d)
                if res is argobj:
                    sim.violation("C16", "result_is_argument", cl, i, bkind, key, "permute returned its argument object")
            if adopted is not None:
                cl.snaps[i] = adopted[2]
                cl.shared_regs[i] = sh
            else:
                cl.snaps[i] = snapshot(res)
                if sh is not None and cl.name == "w":
                    sim.shared[sh] = (res, key, cl.snaps[i], rec["dg"])
        cl.vals[i] = res
        if kind == "again":
            first = cl.recs[bi]
            racy_rng = bkind == "permute" and len(spec["threads"]) > 1  # global RNG shared with other clients
            if first["st"] == "ok" and first.get("key") == key and first.get("dg") != rec["dg"] and not racy_rng:
                prop = "C16" if bkind == "permute" else ("C12" if bkind in ("canon", "serialize") else "C14")
                sim.violation(prop, "repeat_differs", cl, i, bkind, key, f"first {first.get('dg')} now {rec['dg']}")
    elif rec["st"] == "exc" and kind == "again":
        first = cl.recs[bi]
        if first["st"] in ("ok", "exc") and first.get("key") == key and first.get("dg") != rec["dg"]:
            prop = "C16" if bkind == "permute" else ("C12" if bkind in ("canon", "serialize") else "C14")
            sim.violation(prop, "repeat_differs", cl, i, bkind, key, f"first {first.get('dg')} now {rec['dg']} ({rec['enc']})")
    if bkind in model.PUBLIC_OPS or bkind == "permute":
        fp, n = _antlr_fingerprint()
        if fp:
            sim.fingerprints.add(fp)
    cl.ops_done += 1
    return rec


def _do_edit(sim, cl, i, op, g):
    """The caller makes a variant of a molecule it owns: other charges, bond
    orders or coordinates on the same atoms and bonds (a copy, or in place).  The
    unique x coordinate (atom tracer) is left alone."""
    inplace = bool(op.get("inplace"))
    r = Random(op["x"])
    how = op["how"]
    if how == "reorder":
        # the same labelled molecule built by hand in another order: atoms inserted
        # in a shuffled order, bonds listed in a shuffled order and orientation
        inplace = False
        h = T.nx.Graph()
        items = [(n, dict(d)) for n, d in g.nodes(data=True)]
        r.shuffle(items)
        h.add_nodes_from(items)
        es = [((u, v) if r.random() < 0.5 else (v, u), dict(d)) for u, v, d in g.edges(data=True)]
        r.shuffle(es)
        h.add_edges_from((u, v, d) for (u, v), d in es)
        h.graph.update(g.graph)
        return h
    h = g if inplace else g.copy()
    nodes = list(h.nodes)
    edges = list(h.edges)
    Y, Z = T.Y, T.Z
    if how == "del_atom" and len(nodes) > 1:
        # a sub-molecule whose labels are no longer 0..n-1
        h.remove_node(nodes[r.randrange(len(nodes))])
        nodes = list(h.nodes)
        edges = list(h.edges)
    if how == "rewire" and len(nodes) > 2:
        # another molecule on the same atoms: one bond taken away and/or one bond
        # drawn between two atoms that had none (the node set stays what it was)
        d = dict(h.edges[edges[r.randrange(len(edges))]]) if edges else {}
        if edges and r.random() < 0.7:
            u, v = edges[r.randrange(len(edges))]
            h.remove_edge(u, v)
        non = [(a, b) for ai, a in enumerate(nodes) for b in nodes[ai + 1 :] if not h.has_edge(a, b)]
        if non and r.random() < 0.8:
            a, b = non[r.randrange(len(non))]
            h.add_edge(a, b, **d)
        edges = list(h.edges)
    if how in ("chg", "all"):
        for n in nodes:
            if r.random() < 0.5:
                h.nodes[n][T.CHG] = r.choice([-2, -1, 1, 2, 3])
            else:
                h.nodes[n].pop(T.CHG, None)
    if how in ("bond", "all"):
        for u, v in edges:
            h.edges[u, v][T.BOND_TYPE] = r.choice([1, 2, 3, 4])
    if how in ("coords", "all"):
        old = {n: (h.nodes[n].get(Y), h.nodes[n].get(Z)) for n in nodes}
        for n in nodes:
            h.nodes[n][Y] = r.choice([round(r.uniform(-9, 9), 4), 0.0, -0.0, 0, 1.5])
            h.nodes[n][Z] = r.choice([round(r.uniform(-9, 9), 4), 0.0, -0.0, 0])
        pos = [_pos(h.nodes[n]) for n in nodes]
        if len(set(pos)) != len(pos):  # the tracer must stay unique: undo
            for n in nodes:
                for key, v in zip((Y, Z), old[n]):
                    if v is None:
                        h.nodes[n].pop(key, None)
                    else:
                        h.nodes[n][key] = v
    if inplace:
        j = op["arg"]
        cl.retired.add(j)
        cl.vals[j] = MISSING
        _check_relatives(sim, cl, i, j)
    return h


def _check_relatives(sim, cl, i, j):
    """After the caller edited the object of op j: the argument it was computed
    from and the results computed from it must still equal their snapshots."""
    jb = model.base_op(cl.ops, j)
    rel = []
    if "arg" in jb and jb["op"] in ("canon", "permute"):
        rel.append((jb["arg"], jb["op"]))
    for k in range(min(len(cl.vals), len(cl.ops))):
        if k == j:
            continue
        kb = model.base_op(cl.ops, k)
        if kb.get("arg") == j and kb["op"] in ("canon", "permute"):
            rel.append((k, kb["op"]))
    for k, viaop in rel:
        if k in cl.retired or cl.vals[k] is MISSING or cl.snaps[k] is None:
            continue
        d = snap_diff(cl.snaps[k], cl.vals[k])
        if d:
            prop = "C12" if viaop == "canon" else "C16"
            sim.violation(prop, "result_aliases_argument", cl, i, viaop, cl.keys[k], f"editing op#{j}'s object changed op#{k}'s object: {d}")
            cl.snaps[k] = snapshot(cl.vals[k])


def _do_mutate(sim, cl, i, op):
    """The caller edits an object it owns (a result or an argument); afterwards the
    objects it was derived from / that were derived from it must be unchanged."""
    j = op["reg"]
    g = cl.vals[j]
    if g is MISSING or j in cl.retired:
        return
    how = op.get("how", "node_attr")
    nodes = list(g.nodes)
    edges = list(g.edges)
    r = Random(op.get("x", 0))
    if how == "node_attr" and nodes:
        n = nodes[r.randrange(len(nodes))]
        g.nodes[n][T.CHG] = 7 + r.randrange(5)
    elif how == "node_attr_new" and nodes:
        n = nodes[r.randrange(len(nodes))]
        g.nodes[n]["caller_note"] = "edited"
    elif how == "node_attr_del" and nodes:
        n = nodes[r.randrange(len(nodes))]
        for k in list(g.nodes[n])[:1]:
            del g.nodes[n][k]
    elif how == "edge_attr" and edges:
        u, v = edges[r.randrange(len(edges))]
        g.edges[u, v][T.BOND_TYPE] = 9
    elif how == "del_edge" and edges:
        u, v = edges[r.randrange(len(edges))]
        g.remove_edge(u, v)
    elif how == "add_edge" and len(nodes) >= 2:
        u, v = r.sample(nodes, 2)
        g.add_edge(u, v, **{T.BOND_TYPE: 4})
    elif how == "del_node" and nodes:
        g.remove_node(nodes[r.randrange(len(nodes))])
    elif how == "graph_attr":
        g.graph["caller_note"] = "edited"
    elif how == "clear_all":
        for n in nodes:
            g.nodes[n].clear()
    else:
        g.graph["caller_note"] = "edited"
    cl.retired.add(j)
    _check_relatives(sim, cl, i, j)
    # an edit of ONE atom / ONE bond must not show on any other atom or bond of the
    # same graph (attribute dictionaries shared inside a result)
    touched_node = n if how in ("node_attr", "node_attr_new", "node_attr_del") and nodes else None
    touched_edge = frozenset((u, v)) if how == "edge_attr" and edges else None
    snap = cl.snaps[j]
    jb = model.base_op(cl.ops, j)
    if snap is not None and (touched_node is not None or touched_edge is not None) and jb["op"] in ("canon", "permute"):
        d = None
        for (m, d0), (_, d1) in zip(snap[0], g.nodes(data=True)):
            if m != touched_node and _strip(d0, (T.EXPLORED,)) != _strip(d1, (T.EXPLORED,)):
                d = f"editing {'atom ' + str(touched_node) if touched_node is not None else 'a bond'} also changed atom {m}: {d0} -> {d1}"
                break
        if d is None:
            for (a, b, d0), (_, _, d1) in zip(snap[1], g.edges(data=True)):
                if frozenset((a, b)) != touched_edge and d0 != d1:
                    d = f"editing {'atom ' + str(touched_node) if touched_node is not None else 'bond ' + str(sorted(touched_edge))} also changed bond {(a, b)}: {d0} -> {d1}"
                    break
        if d:
            prop = "C12" if jb["op"] == "canon" else "C16"
            sim.violation(prop, "result_parts_share_state", cl, i, jb["op"], cl.keys[j], d)


# --------------------------------------------------------------------------
# run
# --------------------------------------------------------------------------
def run_spec(spec):
    """Execute one spec in this (forked, pristine) process; returns the record."""
    if not T.bound:
        raise HarnessError("engine not bound to a tree")
    global CURRENT
    sim = _Sim(spec)
    CURRENT = sim
    sim.ok_parses = 0
    sim.shared = {}  # share name -> (object, key, snapshot): objects created by the warm-up and handed to every client
    orig_import = builtins.__import__
    wcl = None
    clients = []
    gc.disable()
    gc.collect()
    traced = bool(spec.get("trace", True))

    # seams
    shm = "/dev/shm" if os.path.isdir("/dev/shm") and os.access("/dev/shm", os.W_OK) else (os.environ.get("TMPDIR") or "/tmp")
    sim.tmpdir = os.path.join(shm, f"tucansim-{os.getpid()}")
    os.makedirs(sim.tmpdir, exist_ok=True)
    try:
        if spec.get("clock_frozen"):
            sim.clock.frozen = True
        for path, tid in sorted(spec.get("files", {}).items()):
            sim.materialise(path, spec["texts"][tid])
        T.reader_mod.open = sim.sim_open
        T.writer_mod.datetime = _make_fake_datetime(sim)
        def guarded_import(*a, **kw):
            cl = sim.cur
            if cl is None:
                return orig_import(*a, **kw)
            cl.import_depth += 1
            try:
                return orig_import(*a, **kw)
            finally:
                cl.import_depth -= 1

        builtins.__import__ = guarded_import

        sim.ev("run", spec.get("seed"), spec.get("hashseed"), spec.get("cls"))
        fp0, _ = _antlr_fingerprint()

        # warm-up: sequential, untraced pre-history
        if spec.get("warmup"):
            wcl = Client("w", spec["warmup"])
            sim.cur = wcl
            for i in range(len(wcl.ops)):
                exec_op(sim, wcl, i, False)
            sim.cur = None
            sim.faults["cache_warmth"] = sim.faults.get("cache_warmth", 0) + 1

        clients = [Client(t, ops) for t, ops in enumerate(spec["threads"])]
        sched = Sched(sim, clients, spec)
        modes = T.file_modes.table(spec.get("profile") == "wide")
        sched.modes = modes
        sim.sched = sched
        sim.gtrace = make_tracers(sim, sched, modes)
        if spec.get("stall") is not None and len(clients) > 1:
            sim.faults["stall"] = 1
        if spec.get("hashseed"):
            sim.faults["hashseed"] = 1

        def body(cl):
            cl.lock.acquire()
            try:
                if traced:
                    sys.settrace(sim.gtrace)
                for i in range(len(cl.ops)):
                    # op boundary is a pre-emption point
                    if traced and len(clients) > 1:
                        sim.gstep += 1
                        sched.remaining -= 1
                        if sched.remaining <= 0:
                            sys.settrace(None)
                            sched.switch(None)
                            sys.settrace(sim.gtrace)
                    exec_op(sim, cl, i, traced)
            except BaseException as e:  # noqa: BLE001
                import traceback

                cl.error = "".join(traceback.format_exception(type(e), e, e.__traceback__))[-3000:]
            finally:
                sys.settrace(None)
                sched.finish(cl)

        if spec.get("gc_auto"):
            gc.set_threshold(*spec["gc_auto"])
            gc.enable()
        threads = [threading.Thread(target=body, args=(c,), name=f"client-{c.name}", daemon=True) for c in clients]
        for th in threads:
            th.start()
        sched.start()
        sched.done_lock.acquire()
        for th, c in zip(threads, clients):
            if c.finished:
                th.join()
        sim.sched = None
        gc.disable()
    finally:
        builtins.__import__ = orig_import
        shutil.rmtree(sim.tmpdir, ignore_errors=True)

    errors = [c.error for c in clients if c.error]
    all_clients = ([wcl] if wcl else []) + clients
    ops = []
    for c in all_clients:
        for r in c.recs:
            ops.append(r)
    # probes computed over the history
    if len(clients) > 1 and not spec.get("warmup"):
        parses = [r for r in ops if r["op"] == "parse" and r["c"] != "w" and r["st"] in ("ok", "exc")]
        for a in parses:
            for b in parses:
                if a["c"] < b["c"] and a["key"] == b["key"] and a["s0"] < b["s1"] and b["s0"] < a["s1"]:
                    sim.probe("same_string_parsed_concurrently_cold")
    if sim.shared and len(clients) > 1:
        sh_ops = [r for r in ops if r.get("sharg") and r["c"] != "w" and r["st"] in ("ok", "exc", "faulted")]
        hit = set()
        for a in sh_ops:
            for b in sh_ops:
                if a["c"] < b["c"] and a["sharg"] == b["sharg"] and a["s0"] < b["s1"] and b["s0"] < a["s1"]:
                    hit.add("+".join(sorted((a["op"], b["op"]))))
        for h in sorted(hit):
            sim.probe("shared_object_overlap:" + h)
    n_ret = sum(1 for r in ops if r["st"] in ("ok", "exc"))
    n_lib = sum(1 for r in ops if r["st"] in ("ok", "exc", "faulted"))
    return {
        "seed": spec.get("seed"),
        "cls": spec.get("cls"),
        "hashseed": spec.get("hashseed"),
        "real_hashseed": os.environ.get("PYTHONHASHSEED"),
        "ops": ops,
        "violations": sim.violations,
        "errors": errors,
        "log": sim.log.hexdigest()[:32],
        "n_events": sim.n_events,
        "events": sim.events,
        "steps": sim.gstep,
        "switches": sim.switches,
        "sw_sig": sim.sw_sig.hexdigest()[:16],
        "conflict_pairs": sorted("|".join(p) for p in sim.conflict_pairs),
        "fingerprints": sorted(sim.fingerprints),
        "faults": sim.faults,
        "probes": sim.probes,
        "schedule": sched.recorded,
        "returned": n_ret,
        "lib_ops": n_lib,
        "sim_seconds": sim.gstep * STEP_SECONDS,
        "clock_reads": sim.clock.reads,
        "fs_opens": sim.fs_opens,
        "fs_writes": sim.fs_writes,
        "lock_waits": sim.lock_waits,
    }
