"""Coordinator: builds the batch, owns the template processes, compares every
observation with the isolated reference, minimises and writes replay files and
evidence.  Runs in any Python >= 3.9; does not import tucan."""
import os
import sys
import json
import time
import copy
import queue
import threading
import atexit
import subprocess
from collections import deque, defaultdict, Counter

from . import model, gen

VERIF = os.path.dirname(os.path.dirname(os.path.abspath(__file__)))
PY = os.environ.get("VERIF_PYTHON", "/venv/bin/python")
T0 = 946684800.0  # 2000-01-01 00:00:00 -> the frozen instant of every reference
# further frozen instants used to learn which header positions depend on the clock:
# every digit of every usual field (year, month, day, hour, minute, second,
# microsecond) differs between at least two of the four
T_MASK = [
    T0,
    945870337.123456,  # 1999-12-22 13:45:37.123456
    5195231568.654321,  # 2134-08-19 21:52:48.654321
    549883696.908172,  # 1987-06-05 09:28:16.908172
]


def repo_path():
    return os.path.realpath(os.environ.get("VERIF_REPO", "/repo"))


class HarnessFailure(Exception):
    pass


# --------------------------------------------------------------------------
# template processes
# --------------------------------------------------------------------------
class Template:
    def __init__(self, hashseed, repo, logdir):
        env = dict(os.environ)
        env.update(
            PYTHONHASHSEED=str(hashseed),
            OMP_NUM_THREADS="1",
            OPENBLAS_NUM_THREADS="1",
            MKL_NUM_THREADS="1",
            NUMEXPR_NUM_THREADS="1",
            PYTHONPATH=VERIF,
            PYTHONDONTWRITEBYTECODE="1",
            TUCAN_VERIF_SIM="1",
        )
        env.pop("PYTHONSTARTUP", None)
        self.hashseed = hashseed
        os.makedirs(logdir, exist_ok=True)
        self.err = open(os.path.join(logdir, f"node-{os.getpid()}-{id(self) & 0xffff}.err"), "ab")
        self.p = subprocess.Popen([PY, "-u", "-m", "sim.node", repo], stdin=subprocess.PIPE, stdout=subprocess.PIPE, stderr=self.err, env=env, cwd=VERIF, text=True)
        line = self.p.stdout.readline()
        if not line:
            raise HarnessFailure(f"template (hashseed {hashseed}) failed to start; see {self.err.name}")
        self.info = json.loads(line)

    def run(self, job):
        self.p.stdin.write(json.dumps(job) + "\n")
        self.p.stdin.flush()
        line = self.p.stdout.readline()
        if not line:
            raise HarnessFailure("template died")
        return json.loads(line)

    def close(self):
        try:
            self.p.stdin.write('{"cmd":"quit"}\n')
            self.p.stdin.flush()
            self.p.wait(timeout=5)
        except Exception:
            self.p.kill()
        try:
            self.err.close()
        except Exception:
            pass


class Farm:
    """W worker threads, each owning one template at a time; jobs carry the hash
    seed they need and workers prefer jobs of the seed they already serve.  Idle
    templates are kept for the next call (they are pristine: they never execute
    a library call themselves)."""

    MAX_IDLE = 32

    def __init__(self, workers=None, logdir=None):
        self.workers = workers or int(os.environ.get("VERIF_WORKERS", os.cpu_count() or 4))
        self.repo = repo_path()
        self.logdir = logdir or os.path.join(VERIF, "logs")
        self.template_starts = 0
        self.idle = defaultdict(list)
        self.lock = threading.Lock()
        atexit.register(self.close)

    def close(self):
        with self.lock:
            tpls = [t for v in self.idle.values() for t in v]
            self.idle.clear()
        for t in tpls:
            t.close()

    def _get(self, hs, prefer_fresh=False):
        with self.lock:
            if self.idle.get(hs) and not prefer_fresh:
                return self.idle[hs].pop()
            self.template_starts += 1
        return Template(hs, self.repo, self.logdir)

    def _put(self, tpl):
        drop = None
        with self.lock:
            self.idle[tpl.hashseed].append(tpl)
            n = sum(len(v) for v in self.idle.values())
            if n > self.MAX_IDLE:
                hs = max(self.idle, key=lambda h: len(self.idle[h]))
                drop = self.idle[hs].pop(0)
        if drop:
            drop.close()

    def run(self, jobs, on_result=None, deadline=None, fresh_templates=False):
        """jobs: list of dicts with keys job, hashseed, spec, wall_limit.  Returns
        {job id: answer}."""
        by_hs = defaultdict(deque)
        for j in jobs:
            by_hs[j["hashseed"]].append(j)
        lock = threading.Lock()
        serving = Counter()
        results = {}
        failures = []

        def next_job(cur_hs):
            with lock:
                if cur_hs is not None and by_hs.get(cur_hs):
                    return by_hs[cur_hs].popleft()
                best, score = None, 0
                for hs in sorted(by_hs):
                    q = by_hs[hs]
                    if q:
                        s = len(q) / (1 + serving[hs])
                        if s > score:
                            best, score = hs, s
                if best is None:
                    return None
                if cur_hs is not None:
                    serving[cur_hs] -= 1
                serving[best] += 1
                return by_hs[best].popleft()

        def worker(widx):
            tpl = None
            try:
                while True:
                    if deadline and time.monotonic() > deadline:
                        return
                    job = next_job(tpl.hashseed if tpl else None)
                    if job is None:
                        return
                    if tpl is None or tpl.hashseed != job["hashseed"]:
                        if tpl:
                            self._put(tpl)
                        tpl = self._get(job["hashseed"], fresh_templates)
                    try:
                        spec = job["spec"]() if callable(job.get("spec")) else job.get("spec")
                        msg = {"job": job["job"], "spec": spec, "wall_limit": job.get("wall_limit", 120), "cpu": widx}
                        if job.get("cmd"):
                            msg = {"job": job["job"], "cmd": job["cmd"], "n": job.get("n")}
                            spec = None
                        ans = tpl.run(msg)
                    except HarnessFailure as e:
                        ans = {"job": job["job"], "status": "harness_error", "error": str(e)}
                        try:
                            tpl.close()
                        except Exception:
                            pass
                        tpl = None
                    if on_result:
                        if on_result(job, ans, spec if not job.get("cmd") else None) == "drop":
                            ans = {"job": job["job"], "status": ans["status"], "dropped": True}
                    with lock:
                        results[job["job"]] = ans
            except BaseException as e:  # noqa: BLE001
                failures.append(repr(e))
            finally:
                if tpl:
                    self._put(tpl)

        n = min(self.workers, max(1, len(jobs)))
        ths = [threading.Thread(target=worker, args=(w,), daemon=True) for w in range(n)]
        for t in ths:
            t.start()
        for t in ths:
            t.join()
        if failures:
            raise HarnessFailure("; ".join(failures))
        missing = [j["job"] for j in jobs if j["job"] not in results]
        if missing:
            raise HarnessFailure(f"{len(missing)} jobs not executed (batch wall limit reached)")
        return results


# --------------------------------------------------------------------------
# references
# --------------------------------------------------------------------------
def ref_spec(chain, texts, files, clock=T0):
    used = model.texts_used(chain, {"files": files})
    return {
        "seed": 0,
        "cls": "R",
        "hashseed": 0,
        "trace": False,
        "clock_start": clock,
        "clock_frozen": True,
        "texts": {t: texts[t] for t in sorted(used)},
        "files": {p: t for p, t in files.items() if t in used},
        "warmup": [],
        "threads": [chain],
        "full": False,
    }


class Refs:
    """key -> {dg, st, l2, enc?} computed in isolation (cold process, hash seed 0,
    one client, no tracing, no faults, frozen clock)."""

    def __init__(self, farm):
        self.farm = farm
        self.by_key = {}
        self.jobs_run = 0
        self.l2_mask = None  # positions of header line 2 that depend on the clock
        self.hdr_mask = None  # per header line: clock-dependent positions, or None = ignore the line
        self.clock_seam_effective = None
        self.failed = {}

    def ensure(self, keydefs, texts, files_of_key):
        """keydefs: key -> chain ops; files_of_key: key -> files mapping needed."""
        todo = [k for k in keydefs if k not in self.by_key]
        todo.sort(key=lambda k: (-len(keydefs[k]), k))
        covered = set()
        jobs = []
        for k in todo:
            if k in covered:
                continue
            chain = keydefs[k]
            keys = model.client_keys(chain, {"files": files_of_key.get(k, {})})
            covered.update(x for x in keys if x is not None)
            jobs.append({"job": k, "hashseed": 0, "spec": ref_spec(chain, texts, files_of_key.get(k, {})), "wall_limit": 120})
        if not jobs:
            return
        res = self.farm.run(jobs)
        self.jobs_run += len(jobs)
        for j in jobs:
            ans = res[j["job"]]
            if ans["status"] != "ok":
                raise HarnessFailure(f"reference job for {j['job']} failed: {ans.get('error')}")
            rec = ans["record"]
            if rec["errors"]:
                raise HarnessFailure(f"reference job for {j['job']} failed: {rec['errors'][0]}")
            for o in rec["ops"]:
                if o["key"] is None or o["st"] not in ("ok", "exc"):
                    continue
                prev = self.by_key.get(o["key"])
                cur = {"dg": o["dg"], "st": o["st"], "hdr": o.get("hdr"), "enc": o.get("enc"), "coords": o.get("coords")}
                if prev is not None and prev["dg"] != cur["dg"]:
                    # two isolated computations of one key disagree: report as a
                    # disagreement of that key (handled by the caller)
                    self.failed[o["key"]] = (prev, cur)
                elif prev is None:
                    self.by_key[o["key"]] = cur

    def learn_header_mask(self, chain, texts, files):
        """Which positions of the three header lines depend on the clock (the same
        write at four frozen instants).  hdr_mask[k] is a list of positions, or
        None when the whole line k must be ignored (length varies, or the clock
        seam has no effect on this tree and the real clock shows through)."""
        jobs = [{"job": f"mask{k}", "hashseed": 0, "spec": ref_spec(chain, texts, files, t)} for k, t in enumerate(T_MASK)]
        res = self.farm.run(jobs)
        hdrs = []
        for j in jobs:
            ans = res[j["job"]]
            if ans["status"] != "ok":
                raise HarnessFailure(f"header mask job failed: {ans.get('error')}")
            o = ans["record"]["ops"][-1]
            hdrs.append(o.get("hdr"))
        self.clock_reads_seen = any(res[j["job"]]["record"].get("clock_reads", 0) for j in jobs)
        if any(h is None or len(h) != 3 for h in hdrs):
            self.hdr_mask, self.clock_seam_effective = [None, None, None], False
            return
        self.clock_seam_effective = any(h != hdrs[0] for h in hdrs[1:])
        mask = []
        for k in range(3):
            vals = [h[k] for h in hdrs]
            if not self.clock_seam_effective:
                # nothing learned: if the writer reads a clock we do not control,
                # any header position may vary with real time
                mask.append(None)
            elif len({len(v) for v in vals}) != 1:
                mask.append(None)
            else:
                mask.append([i for i in range(len(vals[0])) if len({v[i] for v in vals}) > 1])
        self.hdr_mask = mask
        self.l2_mask = mask[1]

    def hdr_diff(self, ref, obs):
        """None if the observed header equals the reference outside clock-dependent
        positions, else a description."""
        if ref is None or obs is None:
            return None if ref == obs else f"header missing: {ref!r} vs {obs!r}"
        if len(ref) != len(obs):
            return f"header has {len(obs)} lines, reference {len(ref)}"
        for k, (x, y) in enumerate(zip(ref, obs)):
            m = self.hdr_mask[k] if self.hdr_mask else None
            if m is None:
                continue
            if len(x) != len(y):
                return f"header line {k + 1}: reference {x!r}, observed {y!r}"
            ms = set(m)
            for i in range(len(x)):
                if i not in ms and x[i] != y[i]:
                    return f"header line {k + 1} differs at column {i} (outside the clock-dependent columns {m}): reference {x!r}, observed {y!r}"
        return None


# --------------------------------------------------------------------------
# evaluation of a run record against the references
# --------------------------------------------------------------------------
def evaluate(spec, rec, refs):
    """All violations of a run: those raised by the in-run monitors plus every
    disagreement with the isolated references.  Each is a dict with prop, clause,
    c, i, op, key, detail."""
    out = list(rec["violations"])
    multi = len(spec["threads"]) > 1
    by_client = defaultdict(dict)
    for o in rec["ops"]:
        by_client[o["c"]][o["i"]] = o
    flagged = {(v["c"], v["i"]) for v in out}
    for c in sorted(by_client, key=str):
        ops_def = spec["warmup"] if c == "w" else spec["threads"][c]
        tainted = set()
        for i in sorted(by_client[c]):
            o = by_client[c][i]
            b = model.base_op(ops_def, i)
            arg = b.get("arg")
            if arg is not None and model.RESULT_TYPE.get(b["op"]) != model.NONE and (arg in tainted):
                tainted.add(i)
                continue
            if o["st"] not in ("ok", "exc") or o["key"] is None:
                continue
            if o["op"] == "edit":
                # the caller's own edit is not a library operation: never reported, but
                # a wrong input makes everything derived from it incomparable
                ref = refs.by_key.get(o["key"])
                if ref is not None and ref["dg"] != o["dg"]:
                    tainted.add(i)
                continue
            if multi and "permute(" in o["key"]:
                # the helper is built on the process-global RNG; under concurrent
                # users of `random` no property demands a stable result
                continue
            ref = refs.by_key.get(o["key"])
            if ref is None:
                raise HarnessFailure(f"no reference for key {o['key']}")
            prop = "C16" if o["op"] == "permute" else "C14"
            if ref["dg"] != o["dg"]:
                tainted.add(i)
                detail = f"isolated reference: {ref['st']} {ref['dg']} {_short(ref.get('enc'))}; observed: {o['st']} {o['dg']} {_short(o.get('enc'))}"
                out.append({"prop": prop, "clause": "differs_from_isolated_reference", "c": c, "i": i, "op": o["op"], "key": o["key"], "detail": detail})
                if o.get("again") is not None and o["op"] in ("canon", "serialize"):
                    # the same call repeated on the same object (possibly after an
                    # interrupted attempt) must still give the result: C12's
                    # "can be repeated on the same object with identical results"
                    out.append({"prop": "C12", "clause": "repeat_differs_from_reference", "c": c, "i": i, "op": o["op"], "key": o["key"], "detail": detail})
            elif o["op"] == "write" and o["st"] == "ok" and coords_differ(ref.get("coords"), o.get("coords")):
                out.append({"prop": "C14", "clause": "calculated_coordinates_differ", "c": c, "i": i, "op": "write", "key": o["key"], "detail": coords_differ(ref.get("coords"), o.get("coords"))})
            elif o["op"] == "write" and o["st"] == "ok" and refs.hdr_diff(ref.get("hdr"), o.get("hdr")):
                out.append({"prop": "C14", "clause": "header_differs_outside_timestamp", "c": c, "i": i, "op": "write", "key": o["key"], "detail": refs.hdr_diff(ref.get("hdr"), o.get("hdr"))})
            if (c, i) in flagged:
                tainted.add(i)
    return out


COORD_TOL = float(os.environ.get("VERIF_COORD_TOL", 2e-3))  # calculated (layout) coordinates: numerical noise of the optimiser is not a difference


def coords_differ(ref, obs):
    """Calculated coordinates are compared numerically with a tolerance (they come
    out of an iterative optimiser); None if they agree."""
    if ref is None or obs is None:
        return None
    if len(ref) != len(obs):
        return f"{len(obs)} coordinate triples, reference {len(ref)}"
    for k, (a, b) in enumerate(zip(ref, obs)):
        for x, y in zip(a, b):
            if isinstance(x, str) or isinstance(y, str):
                if x != y:
                    return f"atom line {k}: {b} vs reference {a}"
            elif abs(x - y) > COORD_TOL:
                return f"atom line {k}: calculated coordinates {b}, isolated reference {a}"
    return None


def _short(enc):
    if not enc:
        return ""
    s = json.dumps(enc)
    return s if len(s) < 300 else s[:300] + "..."


def vclass(v):
    return (v["prop"], v["clause"], v["op"])


# --------------------------------------------------------------------------
# batches
# --------------------------------------------------------------------------
TIERS = {
    "C14": {
        "quick": dict(runs=1000, race_runs=1600, hashseeds=8, pool=dict(n_corpus=20, n_random=36, n_big=3, n_bad=12), n_respell=160, n_mutate=40, wall=1500),
        "thorough": dict(runs=10000, race_runs=16000, hashseeds=64, pool=dict(n_corpus=60, n_random=150, n_big=10, n_bad=30), n_respell=400, n_mutate=160, wall=3 * 3600, knobs=dict(max_ops=14, max_warmup=100)),
    },
    "C12": {
        "quick": dict(runs=1200, hashseeds=8, pool=dict(n_corpus=20, n_random=40, n_big=4, n_bad=0), n_respell=12, n_mutate=0, wall=1200),
        "thorough": dict(runs=24000, hashseeds=16, pool=dict(n_corpus=80, n_random=300, n_big=20, n_bad=0), n_respell=60, n_mutate=0, wall=3 * 3600, knobs=dict(max_ops=24, max_warmup=60)),
    },
    "C16": {
        "quick": dict(runs=1500, hashseeds=8, pool=dict(n_corpus=20, n_random=40, n_big=4, n_bad=0), n_respell=12, n_mutate=0, wall=1200),
        "thorough": dict(runs=24000, hashseeds=16, pool=dict(n_corpus=80, n_random=300, n_big=20, n_bad=0), n_respell=60, n_mutate=0, wall=3 * 3600, knobs=dict(max_ops=24, max_warmup=60)),
    },
}


def hash_seeds(master, n):
    hs = [0]
    k = 1
    while len(hs) < n:
        if len(hs) < max(2, n // 2):
            v = k  # small values 1, 2, 3 ...
        else:
            v = gen.H(master, "hashseed", k) % 4294967295 + 1
        if v not in hs:
            hs.append(v)
        k += 1
    return hs


class Stats:
    """Streaming accumulation of what the runs of a batch covered."""

    def __init__(self, prop):
        self.prop = prop
        self.n = 0
        self.faults = Counter()
        self.probes = Counter()
        self.cls = Counter()
        self.hs = Counter()
        self.steps = self.switches = self.lib_ops = self.returned = 0
        self.sim_s = 0.0
        self.sigs, self.fps, self.pairs, self.logs_nt = set(), set(), set(), set()
        self.samples = []
        self.first = None
        self.fs_writes = self.fs_opens = self.clock_reads = 0
        self.op_counts = Counter()
        self.aborts_configured = self.io_faults_configured = self.allocfail_configured = 0

    def nontrivial(self, rec):
        subj = {"C14": model.PUBLIC_OPS, "C12": ("canon", "serialize"), "C16": ("permute",)}[self.prop]
        n = sum(1 for o in rec["ops"] if o["op"] in subj and o["st"] in ("ok", "exc"))
        kinds = [k for k, c in rec["faults"].items() if c and k != "hashseed"]
        return n >= 2 and len(kinds) >= 1

    def add(self, spec, rec):
        self.n += 1
        for k, c in rec["faults"].items():
            self.faults[k] += c
        for k, c in rec["probes"].items():
            self.probes[k] += c
        for o in rec["ops"]:
            self.op_counts[f"{o['op']}:{o['st']}"] += 1
        for _, ops in model.spec_clients(spec):
            for o in ops:
                self.aborts_configured += "abort" in o and o["abort"].get("exc") != "MemoryError"
                self.allocfail_configured += "abort" in o and o["abort"].get("exc") == "MemoryError"
                self.io_faults_configured += "io_fault" in o
        self.cls[rec["cls"]] += 1
        if spec.get("race_kind"):
            self.probes[f"run_kind:{spec['race_kind']}"] += 1
        self.hs[rec["hashseed"]] += 1
        self.steps += rec["steps"]
        self.switches += rec["switches"]
        self.sim_s += rec["sim_seconds"]
        self.lib_ops += rec["lib_ops"]
        self.returned += rec["returned"]
        self.fs_writes += rec.get("fs_writes", 0)
        self.fs_opens += rec.get("fs_opens", 0)
        self.clock_reads += rec.get("clock_reads", 0)
        if rec["switches"]:
            self.sigs.add(rec["sw_sig"])
        self.fps.update(rec["fingerprints"])
        self.pairs.update(rec["conflict_pairs"])
        nt = self.nontrivial(rec)
        if nt:
            self.logs_nt.add(rec["log"])
        if self.first is None:
            self.first = abridge(spec, rec)
        if nt and len(self.samples) < 3:
            self.samples.append(abridge(spec, rec))


def abridge(spec, rec):
    def short(ops):
        return [dict(o) for o in ops[:12]] + ([f"... {len(ops) - 12} more"] if len(ops) > 12 else [])

    return {
        "run_seed": spec["seed"],
        "class": spec["cls"],
        "hashseed": spec["hashseed"],
        "mean_burst": spec.get("mean_burst"),
        "profile": spec.get("profile"),
        "gc_auto": spec.get("gc_auto"),
        "stall": spec.get("stall"),
        "clock_start": spec.get("clock_start"),
        "fs_mtime_gran": spec.get("fs_mtime_gran"),
        "warmup_ops": len(spec["warmup"]),
        "threads": [short(ops) for ops in spec["threads"]],
        "schedule_head": rec["schedule"][:12],
        "schedule_segments": len(rec["schedule"]),
        "steps": rec["steps"],
        "switches": rec["switches"],
        "faults_fired": rec["faults"],
        "results": [[o["c"], o["i"], o["op"], o["st"], o.get("dg")] for o in rec["ops"][:16]],
    }


class Batch:
    def __init__(self, prop, tier, master, params=None, farm=None, verbose=True):
        self.prop, self.tier, self.master = prop, tier, master
        self.p = dict(TIERS[prop][tier])
        if params:
            self.p.update(params)
        self.farm = farm or Farm()
        self.refs = Refs(self.farm)
        self.verbose = verbose
        self.t_start = time.monotonic()
        self.deadline = self.t_start + self.p["wall"]
        self.HS = hash_seeds(master, self.p["hashseeds"])
        self.pool = None
        self.n_runs = 0
        self.n_main = 0
        self.knobs = None
        self.stats = Stats(prop)
        self.violating = {}  # run index -> (spec, record, violations)
        self.violation_count = Counter()
        self.harness_errors = []
        self.lock = threading.Lock()
        self._spec_cache = {}

    def say(self, *a):
        if self.verbose:
            print(f"[{time.monotonic() - self.t_start:7.1f}s]", *a, flush=True)

    # -- pool -----------------------------------------------------------------
    def build_pool(self):
        repo = self.farm.repo
        pool = gen.build_pool_molfiles(self.master, repo, **self.p["pool"])
        # reference pass 1: the pipeline strings of the valid molfiles
        keydefs = {}
        for t in pool.mol_valid:
            chain = [{"op": "read", "text": t}, {"op": "canon", "arg": 0}, {"op": "serialize", "arg": 1}]
            keydefs[f"serialize(canon(read({t})))"] = chain
        self.refs.ensure(keydefs, pool.texts, {})
        strings = []
        for t in pool.mol_valid:
            r = self.refs.by_key.get(f"serialize(canon(read({t})))")
            if r and r["st"] == "ok":
                enc = r.get("enc")
                if enc and enc.get("t") == "str":
                    strings.append(enc["s"])
        gen.build_pool_strings(pool, self.master, strings, self.p["n_respell"], self.p["n_mutate"])
        self.pool = pool
        # header mask: write of the first readable molfile at two instants
        for t in pool.mol_valid:
            r = self.refs.by_key.get(f"read({t})")
            if r and r["st"] == "ok":
                self.refs.learn_header_mask([{"op": "read", "text": t}, {"op": "write", "arg": 0, "calc": False}], pool.texts, {})
                break
        self.say(f"pool: {len(pool.mol_valid)} molfiles ({len(pool.redrawn)} redrawn, {len(pool.samesize)} same-size variants), {len(pool.mol_bad)} malformed, {len(pool.str_pipeline)} pipeline strings, {len(pool.str_respelled)} respelled, {len(pool.str_mutated)} mutated, {len(pool.str_semantic)} semantic rejects, {len(pool.str_boundary)} boundary; header mask {self.refs.l2_mask}")

    # -- specs & references ------------------------------------------------------
    def run_seed(self, i):
        return gen.H(self.master, self.prop, self.tier, i)

    def spec(self, i):
        with self.lock:
            s = self._spec_cache.get(i)
        if s is None:
            knobs = self.knobs
            if i >= self.n_main:
                # the cheap "race runs": 2-4 clients repeating one kind of warm operation
                knobs = dict(knobs or {}, race=True, cls="C")
            s = gen.gen_spec(self.run_seed(i), self.prop, self.pool, self.HS, knobs)
            with self.lock:
                if len(self._spec_cache) > 256:
                    self._spec_cache.clear()
                self._spec_cache[i] = s
        return s

    def make_specs(self, n=None, knobs=None):
        self.n_main = n if n is not None else self.p["runs"]
        self.n_runs = self.n_main + int(self.p.get("race_runs", 0) * (self.n_main / TIERS[self.prop][self.tier]["runs"]))
        self.knobs = knobs if knobs is not None else self.p.get("knobs")

    def collect_refs(self):
        keydefs, files_of_key = {}, {}
        for i in range(self.n_runs):
            spec = self.spec(i)
            for _, ops in model.spec_clients(spec):
                kd = {}
                model.client_keys(ops, spec, kd)
                for k, chain in kd.items():
                    if k not in keydefs and k not in self.refs.by_key:
                        keydefs[k] = chain
                        files_of_key[k] = spec["files"]
        self.refs.ensure(keydefs, self.pool.texts, files_of_key)
        return len(keydefs)

    def ensure_refs_for(self, specs):
        keydefs, files_of_key, texts = {}, {}, {}
        for spec in specs:
            texts.update(spec["texts"])
            for _, ops in model.spec_clients(spec):
                kd = {}
                model.client_keys(ops, spec, kd)
                for k, chain in kd.items():
                    if k not in keydefs and k not in self.refs.by_key:
                        keydefs[k] = chain
                        files_of_key[k] = spec["files"]
        self.refs.ensure(keydefs, texts, files_of_key)
        return len(keydefs)

    # -- execution ------------------------------------------------------------------
    def execute(self):
        jobs = []
        for i in range(self.n_runs):
            jobs.append({"job": i, "hashseed": self.spec(i)["hashseed"], "spec": (lambda i=i: self.spec(i)), "wall_limit": 180})
        done = [0]
        total = len(jobs)

        def on_result(job, ans, spec):
            i = job["job"]
            with self.lock:
                done[0] += 1
                d = done[0]
            if self.verbose and d % 200 == 0:
                self.say(f"{d}/{total} runs done")
            if ans["status"] != "ok":
                with self.lock:
                    self.harness_errors.append((i, spec.get("seed"), ans["status"], ans.get("error", "")))
                return "drop"
            rec = ans["record"]
            if rec["errors"]:
                with self.lock:
                    self.harness_errors.append((i, spec.get("seed"), "client_error", rec["errors"][0]))
                return "drop"
            vs = evaluate(spec, rec, self.refs)
            with self.lock:
                self.stats.add(spec, rec)
                for v in vs:
                    self.violation_count[vclass(v)] += 1
                if vs and len(self.violating) < 400:
                    self.violating[i] = (spec, rec, vs)
            return "drop"

        self.farm.run(jobs, on_result=on_result, deadline=self.deadline)

    def run_one(self, spec, full=False):
        """Execute an explicit spec in a fresh fork; returns (record, violations)."""
        spec = dict(spec)
        spec["full"] = full
        self.ensure_refs_for([spec])
        res = self.farm.run([{"job": "one", "hashseed": spec["hashseed"], "spec": spec, "wall_limit": 180}])
        ans = res["one"]
        if ans["status"] != "ok":
            raise HarnessFailure(f"run failed: {ans['status']} {ans.get('error')}")
        rec = ans["record"]
        if rec["errors"]:
            raise HarnessFailure(f"client error: {rec['errors'][0]}")
        return rec, evaluate(spec, rec, self.refs)

    def run_many(self, specs):
        self.ensure_refs_for(specs)
        jobs = [{"job": k, "hashseed": s["hashseed"], "spec": s, "wall_limit": 180} for k, s in enumerate(specs)]
        res = self.farm.run(jobs)
        out = []
        for k, s in enumerate(specs):
            ans = res[k]
            if ans["status"] != "ok" or ans["record"]["errors"]:
                out.append((None, None))
            else:
                out.append((ans["record"], evaluate(s, ans["record"], self.refs)))
        return out

    def explain(self, spec, v):
        """Observed and expected encodings of the violating observation (full rerun)."""
        out = {}
        try:
            rec, _ = self.run_one(spec, full=True)
            for o in rec["ops"]:
                if o["c"] == v["c"] and o["i"] == v["i"]:
                    out["observed"] = o.get("enc")
            if v.get("key"):
                kd = {}
                for _, ops in model.spec_clients(spec):
                    model.client_keys(ops, spec, kd)
                chain = kd.get(v["key"])
                if chain:
                    rs = ref_spec(chain, spec["texts"], spec["files"])
                    rs["full"] = True
                    res = self.farm.run([{"job": "ref", "hashseed": 0, "spec": rs}])
                    ops = res["ref"]["record"]["ops"]
                    out["expected"] = ops[-1].get("enc")
            out["first_difference"] = first_difference(out.get("expected"), out.get("observed"))
        except Exception as e:  # noqa: BLE001
            out["error"] = repr(e)
        return out


def first_difference(a, b):
    if a is None or b is None:
        return None
    if a.get("t") != b.get("t"):
        return f"kind differs: expected {a.get('t')} ({_short(a)}), observed {b.get('t')} ({_short(b)})"
    if a["t"] == "graph":
        for part in ("nodes", "edges"):
            x, y = a[part], b[part]
            for k in range(max(len(x), len(y))):
                xa = x[k] if k < len(x) else None
                ya = y[k] if k < len(y) else None
                if xa != ya:
                    return f"{part}[{k}]: expected {xa}, observed {ya}"
        return None
    if a["t"] == "mol":
        for k in range(max(len(a["body"]), len(b["body"]))):
            xa = a["body"][k] if k < len(a["body"]) else None
            ya = b["body"][k] if k < len(b["body"]) else None
            if xa != ya:
                return f"body line {k}: expected {xa!r}, observed {ya!r}"
        return None
    return f"expected {_short(a)}, observed {_short(b)}"
