"""Static model of the operation language shared by the generator, the engine and
the coordinator.  Imports nothing from tucan.

A run spec (JSON) looks like

  { "seed": int, "cls": "A|B|C|D", "hashseed": int, "trace": bool,
    "profile": "std|wide", "mean_burst": int, "sched_seed": int,
    "schedule": [[thread, burst], ...] | null,      # explicit schedule (replay)
    "gc_auto": [t0,t1,t2] | null, "stall": thread | null,
    "clock_start": float,                           # simulated epoch seconds
    "texts": { "T3": "...", "S9": "..." },          # every input text the ops use
    "files": { "/sim/a.mol": "T3", ... },           # simulated file system: path -> text id
    "warmup": [op, ...],                            # untraced, sequential, before the clients start
    "threads": [[op, ...], ...] }

An op is a dict; "arg"/"of" refer to the index of an earlier op of the same
client (warm-up ops form their own client), "text" to an id in "texts".
"""

GRAPH, STRING, MOLTEXT, NONE = "graph", "string", "moltext", "none"

# op kind -> result type
RESULT_TYPE = {
    "read": GRAPH,
    "read_file": GRAPH,
    "parse": GRAPH,
    "canon": GRAPH,
    "permute": GRAPH,
    "serialize": STRING,
    "write": MOLTEXT,
    "edit": GRAPH,
    "fs_write": NONE,
    "mutate": NONE,
    "drop": NONE,
    "gc": NONE,
    "rng_perturb": NONE,
    "clock_jump": NONE,
}

# ops that are "the public operations" of C14
PUBLIC_OPS = ("read", "read_file", "parse", "canon", "serialize", "write")
SOURCE_OPS = ("read", "read_file", "parse")


def fmt_seed(x):
    return repr(float(x))


def op_key(op, keys, spec, overlay=None, ops=None):
    """Key (derivation expression) of the result of `op`; `keys` are the keys
    of the earlier ops of the same client (None where there is none); `overlay`
    maps paths this client has (re)written to the text id they now hold."""
    k = op["op"]
    if k == "again":
        if ops is not None:
            b = op
            while b["op"] == "again":
                b = ops[b["of"]]
            if b["op"] == "read_file":
                # the file may have been rewritten since: the key follows its content
                return op_key(b, keys, spec, overlay)
        return keys[op["of"]]
    if k == "read":
        src = op["text"] if "text" in op else keys[op["arg"]]
        return None if src is None else f"read({src})"
    if k == "read_file":
        path = op["path"]
        if not path.endswith(".mol"):
            return f"readf_badsuffix({path})"
        tid = overlay.get(path) if overlay and path in overlay else spec["files"].get(path)
        if tid is None:
            return f"readf_missing({path})"
        return f"read({tid})"
    if k == "parse":
        src = op["text"] if "text" in op else keys[op["arg"]]
        return None if src is None else f"parse({src})"
    if k in ("canon", "serialize"):
        a = keys[op["arg"]]
        return None if a is None else f"{k}({a})"
    if k == "write":
        a = keys[op["arg"]]
        return None if a is None else f"write({a},{int(bool(op.get('calc')))})"
    if k == "edit":
        a = keys[op["arg"]]
        return None if a is None else f"edit({a},{op['how']},{op['x']},{int(bool(op.get('inplace')))})"
    if k == "permute":
        a = keys[op["arg"]]
        return None if a is None else f"permute({a},{fmt_seed(op['seed'])})"
    return None


def base_op(ops, i):
    """Resolve `again` to the op it repeats."""
    op = ops[i]
    while op["op"] == "again":
        op = ops[op["of"]]
    return op


def client_keys(ops, spec, keydefs=None):
    """Keys of all ops of one client.  When keydefs is given it is filled with
    key -> chain (list of ops, self-contained, indices renumbered) so that a
    reference job can recompute the key in isolation."""
    keys = []
    chains = []  # per op: list of original indices forming its chain (in order)
    overlay = {}
    last_write = {}  # path -> index of the fs_write op that last wrote it
    for i, op in enumerate(ops):
        key = op_key(op, keys, spec, overlay, ops)
        keys.append(key)
        if op["op"] == "fs_write":
            overlay[op["path"]] = op["text"]
            last_write[op["path"]] = i
        b = op
        j = i
        while b["op"] == "again":
            j = b["of"]
            b = ops[j]
        if b is not op and b["op"] != "read_file":
            chains.append(chains[j])
            continue
        if b["op"] == "read_file":
            # isolated meaning: the file as last written by this client, read once
            lw = last_write.get(b["path"])
            chains.append(([lw] if lw is not None else []) + [i])
        elif "arg" in b and RESULT_TYPE.get(b["op"]) != NONE:
            chains.append(chains[b["arg"]] + [i])
        else:
            chains.append([i])
        if keydefs is not None and key is not None and key not in keydefs:
            idxs = chains[i]
            remap = {old: new for new, old in enumerate(idxs)}
            chain_ops = []
            for old in idxs:
                o = dict(base_op(ops, old))
                o.pop("abort", None)
                o.pop("share", None)
                o.pop("io_fault", None)
                if "arg" in o:
                    o["arg"] = remap[o["arg"]] if o["arg"] in remap else remap[base_index(ops, o["arg"])]
                chain_ops.append(o)
            keydefs[key] = chain_ops
    return keys


def base_index(ops, i):
    while ops[i]["op"] == "again":
        i = ops[i]["of"]
    return i


def spec_clients(spec):
    """All clients of a spec as (name, ops): warm-up first, then the threads."""
    out = []
    if spec.get("warmup"):
        out.append(("w", spec["warmup"]))
    for t, ops in enumerate(spec["threads"]):
        out.append((t, ops))
    return out


def texts_used(chain_ops, spec):
    ids = set()
    for o in chain_ops:
        if "text" in o:
            ids.add(o["text"])
        if o["op"] == "read_file":
            tid = spec["files"].get(o["path"])
            if tid is not None:
                ids.add(tid)
    return ids
