"""Entry point behind /verif/check."""
import os
import sys
import json
import time
import argparse
import hashlib
import traceback
from collections import Counter, defaultdict

from . import model, gen
from .coord import Batch, Farm, HarnessFailure, evaluate, vclass, VERIF, repo_path, TIERS
from .minimize import Minimizer

PROPS = ("C12", "C14", "C16")
KNOWN = os.path.join(VERIF, "known_findings.txt")

COMPONENTS = {
    "real": [
        "tucan/* from the tree under test (all public operations, unmodified)",
        "antlr4-python3-runtime 4.11.1 (lexer/parser ATN simulators and their class-level DFA caches)",
        "networkx, python-igraph + bliss, scipy (kamada_kawai), CPython random",
        "CPython threads (real threading.Thread clients; exactly one runnable at any time)",
    ],
    "stubbed": [
        "OS scheduler / GIL switching -> seeded baton-passing scheduler at sys.settrace line/call events",
        "wall clock -> tucan.io.molfile_writer.datetime replaced by a simulated clock",
        "file system -> tucan.io.molfile_reader.open replaced by an in-memory FS with injectable errors",
        "other users of the global random module -> rng_perturb operations of the simulator",
        "asynchronous termination (KeyboardInterrupt-like) -> SimAbort raised from the trace hook at a chosen step",
        "interpreter configuration -> node processes started with the PYTHONHASHSEED the run asks for",
    ],
}


def load_known():
    findings, fixed = [], []
    if os.path.exists(KNOWN):
        for line in open(KNOWN):
            line = line.strip()
            if not line or line.startswith("#"):
                continue
            if line.startswith("finding:"):
                d = dict(kv.split("=", 1) for kv in line[len("finding:") :].split("\t") if "=" in kv)
                findings.append({k.strip(): v.strip() for k, v in d.items()})
            elif line.startswith("fixed:"):
                fixed.append(line)
    return findings, fixed


def match_known(v, findings):
    for f in findings:
        if f.get("property") == v["prop"] and f.get("clause") == v["clause"] and f.get("op") == v["op"] and f.get("key") == v["key"]:
            return f
    return None


def write_replay(prop, spec, rec, v, refs, min_info):
    rdir = os.environ.get("VERIF_REPLAY_DIR") or os.path.join(VERIF, "replays")
    os.makedirs(rdir, exist_ok=True)
    path = os.path.join(rdir, f"{prop}-{spec.get('seed')}-{v['clause']}-{v['op']}.json")
    keys = set()
    for _, ops in model.spec_clients(spec):
        keys.update(k for k in model.client_keys(ops, spec) if k)
    doc = {
        "property": prop,
        "violation": v,
        "class": list(vclass(v)),
        "expected_log": rec["log"],
        "spec": {k: spec[k] for k in spec if k != "full"},
        "faults_fired": rec["faults"],
        "references": {k: refs.by_key[k]["dg"] for k in sorted(keys) if k in refs.by_key},
        "minimisation": min_info,
        "how_to_replay": f"./check {prop} --replay {os.path.relpath(path, VERIF)}",
    }
    with open(path, "w") as f:
        json.dump(doc, f, indent=1)
    return path


def write_evidence(prop, tier, master, batch, n_violations, known_hits, wall, extra=None):
    st = batch.stats
    n = st.n
    samples = st.samples or ([st.first] if st.first else [])
    ev = {
        "property_id": prop,
        "tier": tier,
        "seed": int(master),
        "level": "exploration",
        "coverage": {
            "evaluations": n,
            "distinct_nontrivial": len(st.logs_nt),
            "rule": "one evaluation = one simulated run (a pristine forked process executing a seeded spec: warm-up history, 1-4 client threads, seeded schedule, injected faults). A run is non-trivial if >=2 operations of the property's subject returned and >=1 fault kind other than the hash seed actually fired; distinct = distinct SHA-256 digests of the complete step-stamped event log (invoke/return with result digests, context switches with code sites, faults) among the non-trivial runs.",
            "samples": samples,
            "runs_per_class": dict(sorted(st.cls.items())),
            "runs_per_hour": round(n / max(wall, 1e-9) * 3600),
            "seeds_per_hour": round(n / max(wall, 1e-9) * 3600),
            "simulated_seconds_advance": round(st.sim_s, 3),
            "steps_executed": st.steps,
            "context_switches": st.switches,
            "fault_kinds_fired": dict(sorted(st.faults.items())),
            "faults_configured_but_not_fired": {"abort": st.aborts_configured - st.faults.get("abort", 0), "alloc_failure": st.allocfail_configured - st.faults.get("alloc_failure", 0), "io_error": st.io_faults_configured - st.faults.get("io_error", 0)},
            "probes": dict(sorted(st.probes.items())),
            "operations_by_outcome": dict(sorted(st.op_counts.items())),
            "fraction_of_library_ops_returned_normally_or_with_own_exception": round(st.returned / max(1, st.lib_ops), 4),
            "distinct_context_switch_signatures": len(st.sigs),
            "distinct_conflict_pairs": len(st.pairs),
            "conflict_pair_examples": sorted(st.pairs)[:8],
            "distinct_antlr_cache_fingerprints": len(st.fps),
            "simulated_fs_opens": st.fs_opens,
            "simulated_fs_rewrites": st.fs_writes,
            "simulated_clock_reads": st.clock_reads,
            "reference_keys": len(batch.refs.by_key),
            "reference_jobs": batch.refs.jobs_run,
            "hash_seeds": batch.HS,
            "runs_per_hash_seed": {str(k): v for k, v in sorted(st.hs.items())},
            "clock_seam_effective": batch.refs.clock_seam_effective,
            "header_clock_positions_per_line": batch.refs.hdr_mask,
            "template_processes_started": batch.farm.template_starts,
            "components": COMPONENTS,
            "harness_errors": len(batch.harness_errors),
            "known_findings_hit": known_hits,
            "tree": repo_path(),
        },
        "assumptions": [
            "pre-emption only at Python line events in tucan/, the antlr4 ATN simulators/DFA/PredictionContext, random.py and at call events elsewhere in antlr4/networkx/igraph; C code is atomic (as under the GIL)",
            "graph objects are private to one client thread except in shared-object runs (objects made by the warm-up, handed to serialize/canonicalize/write by all clients); inputs (texts) and all process-global state are shared",
            "references are recomputed from the tree under test: a cold process, hash seed 0, one client, no tracing, no faults",
            "a clean batch is evidence, not proof",
        ],
        "wall_s": round(wall, 2),
        "violations": n_violations,
    }
    if extra:
        ev["coverage"].update(extra)
    os.makedirs(os.path.join(VERIF, "evidence"), exist_ok=True)
    tmp = os.path.join(VERIF, "evidence", f".{prop}.json.tmp")
    with open(tmp, "w") as f:
        json.dump(ev, f, indent=1)
    os.replace(tmp, os.path.join(VERIF, "evidence", f"{prop}.json"))
    return ev


def run_check(prop, tier, master, params=None, runs=None, verbose=True, evidence=True):
    t0 = time.monotonic()
    findings, _ = load_known()
    batch = Batch(prop, tier, master, params=params, verbose=verbose)
    if runs:
        batch.p["runs"] = runs
    batch.build_pool()
    batch.make_specs(batch.p["runs"])
    batch.say(f"check {prop} tier={tier} VERIF_SEED={master} runs={batch.n_main}+{batch.n_runs - batch.n_main} race runs tree={repo_path()} workers={batch.farm.workers}")
    batch.collect_refs()
    batch.say(f"references: {len(batch.refs.by_key)} keys ({batch.refs.jobs_run} isolated jobs)")
    batch.execute()
    batch.say(f"{batch.stats.n} runs executed, {len(batch.harness_errors)} harness errors")
    all_v = []
    for k, (a, b) in sorted(batch.refs.failed.items()):
        all_v.append((None, {"prop": "C14", "clause": "isolated_computations_disagree", "c": 0, "i": 0, "op": "ref", "key": k, "detail": f"{a['dg']} vs {b['dg']}"}))
    for i in sorted(batch.violating):
        for v in batch.violating[i][2]:
            all_v.append((i, v))
    mine = [(i, v) for i, v in all_v if v["prop"] == prop]
    others = Counter(v["prop"] for i, v in all_v if v["prop"] != prop)
    if others:
        batch.say(f"note: violations of other properties observed in this workload (reported by their own checks): {dict(others)}")
    known_hits, fresh = [], []
    for i, v in mine:
        f = match_known(v, findings)
        if f:
            known_hits.append(f"{v['prop']} {v['clause']} {v['op']} {v['key']}")
        else:
            fresh.append((i, v))
    for k in sorted(set(known_hits)):
        print(f"KNOWN-FINDING: property={prop} {k}", flush=True)
    replay_paths = []
    if fresh:
        # one representative per violation class, minimised
        by_class = defaultdict(list)
        for i, v in fresh:
            by_class[vclass(v)].append((i, v))
        rdir = os.environ.get("VERIF_REPLAY_DIR") or os.path.join(VERIF, "replays")
        for cls in sorted(by_class)[:3]:
            i, v = min(by_class[cls], key=lambda iv: (len(json.dumps(batch.violating[iv[0]][0])) if iv[0] is not None else 0))
            if i is None:
                path = os.path.join(rdir, f"{prop}-ref-{hashlib.sha256(v['key'].encode()).hexdigest()[:8]}.json")
                os.makedirs(os.path.dirname(path), exist_ok=True)
                json.dump({"property": prop, "violation": v, "class": list(cls)}, open(path, "w"), indent=1)
                replay_paths.append(path)
                continue
            spec, rec, _ = batch.violating[i]
            batch.say(f"violation class {cls}: {batch.violation_count[cls]} occurrence(s); minimising run seed {spec['seed']} ...")
            mz = Minimizer(batch, cls, budget_runs=int(os.environ.get("VERIF_MIN_RUNS", 400)), budget_s=float(os.environ.get("VERIF_MIN_SECONDS", 600)))
            try:
                mspec, mrec, mv = mz.run(spec, rec, v)
            except Exception as e:  # noqa: BLE001
                batch.say(f"minimisation failed ({e!r}); reporting the unminimised run")
                mspec, mrec, mv = spec, rec, v
            info = {"candidates_tried": mz.tried, "ops_before": sum(len(o) for _, o in model.spec_clients(spec)), "ops_after": sum(len(o) for _, o in model.spec_clients(mspec)), "threads_before": len(spec["threads"]), "threads_after": len(mspec["threads"]), "segments_after": len(mspec.get("schedule") or [])}
            info["explanation"] = batch.explain(mspec, mv)
            path = write_replay(prop, mspec, mrec, mv, batch.refs, info)
            replay_paths.append(path)
            batch.say(f"  {mv['clause']} on {mv['op']} key={mv['key']}: {mv['detail'][:300]}")
            if info["explanation"].get("first_difference"):
                batch.say(f"  first difference: {info['explanation']['first_difference'][:400]}")
            batch.say(f"  minimised {info['ops_before']} -> {info['ops_after']} ops, {info['threads_before']} -> {info['threads_after']} threads, {mz.tried} candidates")
    wall = time.monotonic() - t0
    if evidence:
        write_evidence(prop, tier, master, batch, len(fresh), sorted(set(known_hits)), wall)
    if batch.harness_errors:
        for i, seed, st, err in batch.harness_errors[:5]:
            print(f"HARNESS-ERROR run={i} seed={seed} {st}: {err[-1500:]}", flush=True)
    for p in replay_paths:
        print(f"VIOLATION property={prop} replay={os.path.relpath(p, VERIF)}", flush=True)
    if replay_paths:
        return 1
    if batch.harness_errors:
        return 2
    batch.say(f"OK {prop}: {batch.stats.n} runs, 0 violations, wall {wall:.1f}s")
    return 0


def run_single(prop, tier, master, run_seed):
    batch = Batch(prop, tier, master, verbose=True)
    batch.build_pool()
    spec = gen.gen_spec(run_seed, prop, batch.pool, batch.HS, batch.p.get("knobs"))
    print(json.dumps({k: v for k, v in spec.items() if k != "texts"})[:6000])
    rec, vs = batch.run_one(spec, full=False)
    for o in rec["ops"]:
        print({k: v for k, v in o.items() if k != "enc"})
    print({k: v for k, v in rec.items() if k not in ("ops", "schedule", "events", "conflict_pairs", "fingerprints")})
    for v in vs:
        print("VIOLATION", v)
    return 1 if vs else 0


def replay(prop, path):
    doc = json.load(open(path))
    spec = doc["spec"]
    cls = tuple(doc["class"])
    batch = Batch(doc["property"], "quick", 0, verbose=True)
    rec, vs = batch.run_one(spec, full=False)
    same = [v for v in vs if vclass(v) == cls]
    print(f"replayed run seed {spec.get('seed')} (hash seed {spec.get('hashseed')}): event log {rec['log']} (recorded {doc.get('expected_log')})")
    for v in vs:
        print(f"  {v['prop']} {v['clause']} {v['op']} key={v['key']}: {v['detail'][:400]}")
    if same:
        if doc.get("expected_log") and rec["log"] != doc["expected_log"]:
            print("note: violation reproduced but the event log digest differs from the recorded one (the tree changed?)")
        print(f"VIOLATION property={doc['property']} replay={os.path.relpath(path, VERIF) if os.path.isabs(path) else path}")
        return 1
    print("NOT REPRODUCED: the replayed run shows no violation of the recorded class")
    return 0


def main(argv=None):
    ap = argparse.ArgumentParser(prog="check")
    ap.add_argument("prop", nargs="?")
    ap.add_argument("--tier", default=os.environ.get("VERIF_TIER", "quick"), choices=["quick", "thorough"])
    ap.add_argument("--replay")
    ap.add_argument("--runs", type=int)
    ap.add_argument("--setup", action="store_true")
    ap.add_argument("--selftest")
    ap.add_argument("--quiet", action="store_true")
    ap.add_argument("--no-evidence", action="store_true")
    ap.add_argument("--run-seed", type=int, help="debug: execute the single run with this run seed (same pool as the batch) and print its record")
    a = ap.parse_args(argv)
    master = int(os.environ.get("VERIF_SEED", "1") or 1)
    try:
        if a.setup:
            from . import selftest

            return selftest.setup_check()
        if a.selftest:
            from . import selftest

            return selftest.run(a.selftest, master, a.tier)
        if a.prop not in PROPS:
            print(f"usage: check {{{'|'.join(PROPS)}}} [--tier quick|thorough] [--replay file]", file=sys.stderr)
            return 2
        if a.replay:
            return replay(a.prop, a.replay)
        if a.run_seed is not None:
            return run_single(a.prop, a.tier, master, a.run_seed)
        return run_check(a.prop, a.tier, master, runs=a.runs, verbose=not a.quiet, evidence=not a.no_evidence)
    except HarnessFailure as e:
        print(f"HARNESS-ERROR {e}", flush=True)
        return 2
    except Exception:
        traceback.print_exc()
        print("HARNESS-ERROR unexpected exception in the coordinator", flush=True)
        return 2


if __name__ == "__main__":
    sys.exit(main())
