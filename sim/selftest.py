"""Self tests of the simulator (not registered checks)."""
import os, sys

def setup_check():
    import subprocess
    from .coord import PY, repo_path, VERIF
    r = subprocess.run([PY, "-c", "import antlr4, networkx, igraph, scipy, numpy; print('deps ok')"], capture_output=True, text=True)
    print(r.stdout.strip() or r.stderr.strip())
    return 0 if r.returncode == 0 else 2

def run(name, master, tier):
    print("not implemented", name)
    return 2
