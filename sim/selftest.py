"""Self tests of the simulator itself (not registered checks).

  ./check --selftest determinism      replay determinism of the simulator
  ./check --selftest digests          (internal) print run digests as JSON
  ./check --selftest mutants          sensitivity: known-bad and known-benign edits of a scratch copy
"""
import os
import sys
import json
import time
import shutil
import hashlib
import tempfile
import subprocess

from . import gen, model
from .coord import Batch, Farm, HarnessFailure, evaluate, PY, VERIF, repo_path


def setup_check():
    r = subprocess.run([PY, "-c", "import antlr4, networkx, igraph, scipy, numpy; print('deps ok')"], capture_output=True, text=True)
    print(r.stdout.strip() or r.stderr.strip())
    return 0 if r.returncode == 0 else 2


def _specs(master, n, workers=None):
    """n specs per property from the quick pools (same pool for all three)."""
    farm = Farm(workers=workers)
    b = Batch("C14", "quick", master, farm=farm, verbose=False)
    b.build_pool()
    specs = []
    for prop in ("C14", "C12", "C16"):
        for i in range(n):
            r = gen.H(master, "selftest", prop, i)
            specs.append(gen.gen_spec(r, prop, b.pool, b.HS))
    return b, specs


def _digests(b, specs, copies, fresh=False, churn=False):
    jobs = []
    for c in range(copies):
        for k, s in enumerate(specs):
            s2 = dict(s)
            s2["full"] = False
            jobs.append({"job": f"{k}:{c}", "hashseed": s["hashseed"], "spec": s2, "wall_limit": 240})
    if churn:
        # interleave allocation churn in the templates so that forks happen at
        # different heap states
        extra = []
        for k, hs in enumerate(sorted({s["hashseed"] for s in specs})):
            extra.append({"job": f"churn{k}", "hashseed": hs, "cmd": "churn", "n": 20000 + 1000 * k, "spec": None})
        jobs = extra + jobs
    res = b.farm.run(jobs, fresh_templates=fresh)
    out = {}
    for j in jobs:
        if j.get("cmd"):
            continue
        ans = res[j["job"]]
        if ans["status"] != "ok":
            out[j["job"]] = f"ERROR {ans['status']} {ans.get('error', '')[-300:]}"
        elif ans["record"]["errors"]:
            out[j["job"]] = f"ERROR {ans['record']['errors'][0][-300:]}"
        else:
            r = ans["record"]
            out[j["job"]] = f"{r['log']} steps={r['steps']} sw={r['switches']} ev={r['n_events']}"
    return out


def digests_main(master, n):
    b, specs = _specs(master, n)
    d = _digests(b, specs, 1)
    spec_hash = hashlib.sha256(json.dumps(specs, sort_keys=True).encode()).hexdigest()
    print("DIGESTS " + json.dumps({"specs": spec_hash, "runs": d}, sort_keys=True))
    return 0


def determinism(master, tier):
    n = 100 if tier == "quick" else 1000
    t0 = time.monotonic()
    b, specs = _specs(master, n)
    print(f"determinism selftest: {len(specs)} specs (C14/C12/C16 generators), seed {master}")
    a = _digests(b, specs, 2, fresh=True)  # two copies, different slots, fresh templates
    bad = 0
    errs = [k for k, v in a.items() if v.startswith("ERROR")]
    for k in range(len(specs)):
        if a[f"{k}:0"] != a[f"{k}:1"]:
            bad += 1
            print(f"  MISMATCH same-batch copies: spec {k} seed {specs[k]['seed']}: {a[f'{k}:0']} vs {a[f'{k}:1']}")
    print(f"  phase 1 (16 workers, 2 copies in different slots): {bad} mismatches, {len(errs)} errors [{time.monotonic() - t0:.0f}s]")
    # late forks of busy templates
    c = _digests(b, specs, 1, fresh=False, churn=True)
    bad2 = sum(1 for k in range(len(specs)) if c[f"{k}:0"] != a[f"{k}:0"])
    print(f"  phase 2 (late forks of reused, churned templates): {bad2} mismatches [{time.monotonic() - t0:.0f}s]")
    # other worker count, coordinator under another hash seed, fresh interpreter
    env = dict(os.environ, VERIF_COORD_HASHSEED="424242", VERIF_WORKERS="4", VERIF_SEED=str(master), VERIF_SELFTEST_N=str(n))
    r = subprocess.run([os.path.join(VERIF, "check"), "--selftest", "digests"], capture_output=True, text=True, env=env)
    line = [l for l in r.stdout.splitlines() if l.startswith("DIGESTS ")]
    bad3 = -1
    if line:
        other = json.loads(line[0][8:])
        mine_hash = hashlib.sha256(json.dumps(specs, sort_keys=True).encode()).hexdigest()
        spec_same = other["specs"] == mine_hash
        bad3 = sum(1 for k in range(len(specs)) if other["runs"].get(f"{k}:0") != a[f"{k}:0"])
        print(f"  phase 3 (fresh coordinator, PYTHONHASHSEED=424242, 4 workers): specs identical: {spec_same}; {bad3} mismatches [{time.monotonic() - t0:.0f}s]")
        if not spec_same:
            bad3 += 1
    else:
        print("  phase 3 failed to run:", r.stdout[-500:], r.stderr[-500:])
    ok = bad == 0 and bad2 == 0 and bad3 == 0 and not errs
    for k in errs[:5]:
        print("  ", k, a[k])
    print("DETERMINISM", "OK" if ok else "FAILED")
    return 0 if ok else 1


# --------------------------------------------------------------------------
# sensitivity: mutants
# --------------------------------------------------------------------------
def _scratch_copy():
    base = tempfile.mkdtemp(prefix="tucan-scratch-", dir=os.environ.get("TMPDIR", "/tmp"))
    src = repo_path()
    shutil.copytree(os.path.join(src, "tucan"), os.path.join(base, "tucan"))
    os.makedirs(os.path.join(base, "tests"))
    for d in ("molfiles", "molfiles_v2000"):
        if os.path.isdir(os.path.join(src, "tests", d)):
            shutil.copytree(os.path.join(src, "tests", d), os.path.join(base, "tests", d))
    return base


def _load_index():
    import importlib.util

    spec = importlib.util.spec_from_file_location("selftest_mutants_index", os.path.join(VERIF, "selftest_mutants", "index.py"))
    mod = importlib.util.module_from_spec(spec)
    spec.loader.exec_module(mod)
    return mod.MUTANTS, mod.BENIGN


def mutants(master, tier, only=None):
    """Known-bad edits must be reported by the checks named in `expect`, known-benign
    edits must leave them clean.  Every edit is applied to a scratch copy that is
    removed right afterwards."""
    bad, benign = _load_index()
    failures = 0
    rdir = tempfile.mkdtemp(prefix="tucan-selftest-replays-")
    for m in bad + benign:
        if only and m["name"] not in only and not (("benign" in only and m in benign) or ("bad" in only and m in bad)):
            continue
        scratch = _scratch_copy()
        try:
            okp = True
            for rel, old, new in m["edits"]:
                f = os.path.join(scratch, rel)
                txt = open(f).read()
                if old not in txt:
                    print(f"{m['name']}: EDIT DOES NOT APPLY to {rel}")
                    okp = False
                    break
                open(f, "w").write(txt.replace(old, new, 1))
            if not okp:
                failures += 1
                continue
            for prop, expect in sorted(m["expect"].items()):
                env = dict(os.environ, VERIF_REPO=scratch, VERIF_SEED=str(master), VERIF_MIN_RUNS="40", VERIF_MIN_SECONDS="60", VERIF_REPLAY_DIR=rdir)
                t0 = time.monotonic()
                cmd = [os.path.join(VERIF, "check"), prop, "--quiet", "--no-evidence"]
                if m.get("runs"):
                    cmd += ["--runs", str(m["runs"])]
                r = subprocess.run(cmd, capture_output=True, text=True, env=env)
                viol = [l for l in r.stdout.splitlines() if l.startswith("VIOLATION")]
                got = "violation" if (r.returncode == 1 and viol) else ("clean" if r.returncode == 0 else f"error({r.returncode})")
                status = "ok" if got == expect else "UNEXPECTED"
                if status != "ok":
                    failures += 1
                print(f"{m['name']:36s} {prop}: expected {expect:9s} got {got:9s} {status} [{time.monotonic() - t0:.0f}s]", flush=True)
                if status != "ok":
                    print(r.stdout[-1500:], r.stderr[-800:])
        finally:
            shutil.rmtree(scratch, ignore_errors=True)
    shutil.rmtree(rdir, ignore_errors=True)
    print("MUTANTS", "OK" if failures == 0 else f"FAILED ({failures})")
    return 0 if failures == 0 else 1


def monitors():
    env = dict(os.environ, OMP_NUM_THREADS="1", OPENBLAS_NUM_THREADS="1", PYTHONPATH=VERIF, PYTHONDONTWRITEBYTECODE="1")
    r = subprocess.run([PY, "-m", "sim.selftest_monitors", repo_path()], env=env, cwd=VERIF)
    return r.returncode


def run(name, master, tier):
    if name == "monitors":
        return monitors()
    if name == "determinism":
        return determinism(master, tier)
    if name == "digests":
        return digests_main(master, int(os.environ.get("VERIF_SELFTEST_N", "100")))
    if name.startswith("mutants"):
        only = name.split(":", 1)[1].split(",") if ":" in name else None
        return mutants(master, tier, only)
    print("unknown selftest", name)
    return 2
