"""Unit checks of the oracles themselves: every monitor clause must accept the
behaviour of the pinned tree on hand-made cases and reject a hand-made
counterexample.  Run as `./check --selftest monitors` (spawns this module in an
interpreter that has the library's dependencies)."""
import sys
import os


def main(repo):
    from . import engine as E

    E.bind(repo)
    nx = E.T.nx
    T = E.T
    fails = []

    def expect(name, got, want_violation):
        ok = bool(got) == want_violation
        print(f"{'ok  ' if ok else 'FAIL'} {name}: {'rejected: ' + str(got)[:90] if got else 'accepted'}")
        if not ok:
            fails.append(name)

    def mol():
        g = nx.Graph()
        for i, (sym, z) in enumerate([("C", 6), ("O", 8), ("H", 1), ("H", 1)]):
            g.add_node(i, element_symbol=sym, atomic_number=z, partition=0, invariant_code=(z, 0, 0), x_coord=1.5 * i, y_coord=0.0, z_coord=-0.0)
        g.add_edge(0, 1, bond_type=2)
        g.add_edge(0, 2, bond_type=1)
        g.add_edge(0, 3, bond_type=1)
        g.nodes[1]["chg"] = -1
        return g

    # --- canonicalization clause -------------------------------------------------
    g = mol()
    h = T.canon(g)
    expect("canon: real result is a renaming", E.check_canon(g, h), False)
    bad = h.copy()
    del bad.nodes[list(bad.nodes)[1]]["chg" if "chg" in bad.nodes[list(bad.nodes)[1]] else "element_symbol"]
    expect("canon: attribute lost", E.check_canon(g, bad), True)
    bad = h.copy()
    u, v = list(bad.edges)[0]
    bad.edges[u, v]["bond_type"] = 3
    expect("canon: bond type changed", E.check_canon(g, bad), True)
    bad = h.copy()
    bad.remove_edge(*list(bad.edges)[0])
    expect("canon: bond lost", E.check_canon(g, bad), True)
    bad = nx.relabel_nodes(h, {0: 10})
    expect("canon: labels not 0..n-1", E.check_canon(g, bad), True)
    bad = h.copy()
    a, b = list(bad.nodes)[:2]
    bad.nodes[a]["x_coord"], bad.nodes[b]["x_coord"] = bad.nodes[b]["x_coord"], bad.nodes[a]["x_coord"]
    expect("canon: attributes moved to another atom", E.check_canon(g, bad), True)
    # --- snapshots -------------------------------------------------------------------
    g = mol()
    snap = E.snapshot(g)
    T.canon(g)
    expect("snapshot: canonicalize leaves its argument alone", E.snap_diff(snap, g), False)
    T.serialize(T.canon(g))
    s0 = E.snapshot(g)
    T.serialize(g)
    expect("snapshot: serialize may add the scratch flag", E.snap_diff(s0, g, tolerate_new_node_keys=True), False)
    g.nodes[0]["chg"] = 5
    expect("snapshot: attribute edit is seen", E.snap_diff(snap, g), True)
    g = mol()
    snap = E.snapshot(g)
    g2 = nx.Graph()
    g2.add_nodes_from(reversed(list(g.nodes(data=True))))
    g2.add_edges_from(g.edges(data=True))
    expect("snapshot: node order change is seen", E.snap_diff(snap, g2), True)
    # --- permutation clause -----------------------------------------------------------
    g = mol()
    p = T.permute(g, 0.3)
    expect("permute: real result is a faithful copy", E.check_permute(g, p), False)
    expect("permute: identity on a 3-bond non-complete molecule", E.check_permute(g, g.copy()), True)
    bad = p.copy()
    u, v = list(bad.edges)[0]
    bad.edges[u, v].clear()
    expect("permute: bond attributes dropped", E.check_permute(g, bad), True)
    bad = nx.Graph()
    bad.add_nodes_from(reversed(list(p.nodes(data=True))))
    bad.add_edges_from(p.edges(data=True))
    expect("permute: atoms not in label order", E.check_permute(g, bad), True)
    k4 = nx.complete_graph(4)
    for i in k4:
        k4.nodes[i].update(element_symbol="P", atomic_number=15, partition=0, x_coord=float(i))
    expect("permute: complete graph may keep its edge set", E.check_permute(k4, k4.copy()), False)
    # --- encodings ---------------------------------------------------------------------
    a = E.enc_moltext("name\n  TUCAN0100101000000003D\n\n  0  0  0     0  0            999 V3000\nM  V30 BEGIN CTAB\nM  END", False)
    b = E.enc_moltext("name\n  TUCAN0101222991345373D\n\n  0  0  0     0  0            999 V3000\nM  V30 BEGIN CTAB\nM  END", False)
    expect("encoding: timestamp is outside the digested body", E.digest(a) != E.digest(b), False)
    c = E.enc_moltext("name\n  TUCAN0100101000000003D\n\n  0  0  0     0  0            999 V3000\nM  V30 BEGIN CTAB 1\nM  END", False)
    expect("encoding: body change changes the digest", E.digest(a) != E.digest(c), True)
    g = mol()
    e1 = E.enc_graph(g)
    T.serialize(g)
    expect("encoding: scratch flag is not part of a graph's encoding", E.digest(e1) != E.digest(E.enc_graph(g)), False)
    print("MONITORS", "OK" if not fails else f"FAILED {fails}")
    return 1 if fails else 0


if __name__ == "__main__":
    sys.exit(main(sys.argv[1]))
