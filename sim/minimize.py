"""Minimisation of a failing spec: keep a candidate only if a violation of the
same class (property, clause, op kind) recurs in a fresh fork."""
import copy
import time

from . import model
from .coord import vclass


def _drop_op(ops, k):
    """ops without op k and without everything that depends on it; None if k is
    referenced in a way that cannot be dropped."""
    dead = {k}
    for i in range(k + 1, len(ops)):
        o = ops[i]
        for f in ("arg", "of", "reg"):
            if f in o and o[f] in dead:
                dead.add(i)
    remap, out = {}, []
    for i, o in enumerate(ops):
        if i in dead:
            continue
        remap[i] = len(out)
        o = dict(o)
        for f in ("arg", "of", "reg"):
            if f in o:
                o[f] = remap[o[f]]
        out.append(o)
    return out


def _prune_texts(spec):
    used = set()
    for _, ops in model.spec_clients(spec):
        for o in ops:
            if "text" in o:
                used.add(o["text"])
    paths = {o["path"] for _, ops in model.spec_clients(spec) for o in ops if o["op"] in ("read_file", "fs_write")}
    spec["files"] = {p: t for p, t in spec["files"].items() if p in paths}
    used.update(spec["files"].values())
    spec["texts"] = {k: v for k, v in spec["texts"].items() if k in used}


class Minimizer:
    def __init__(self, batch, target_class, budget_runs=400, budget_s=600):
        self.b = batch
        self.cls = target_class
        self.budget_runs = budget_runs
        self.t_end = time.monotonic() + budget_s
        self.tried = 0

    def fails(self, spec):
        if self.tried >= self.budget_runs or time.monotonic() > self.t_end:
            return None
        self.tried += 1
        try:
            rec, vs = self.b.run_one(spec)
        except Exception:
            return None
        for v in vs:
            if vclass(v) == self.cls:
                return rec, v
        return None

    def fails_many(self, specs):
        """Evaluate several candidates in parallel; returns index of the first that fails."""
        if self.tried >= self.budget_runs or time.monotonic() > self.t_end or not specs:
            return None
        self.tried += len(specs)
        try:
            res = self.b.run_many(specs)
        except Exception:
            return None
        for k, (rec, vs) in enumerate(res):
            if rec is None:
                continue
            for v in vs:
                if vclass(v) == self.cls:
                    return k, rec, v
        return None

    def run(self, spec, rec, v):
        best = copy.deepcopy(spec)
        best_rec, best_v = rec, v

        def attempt(cands):
            nonlocal best, best_rec, best_v
            r = self.fails_many(cands)
            if r is None:
                return False
            k, rc, vv = r
            best, best_rec, best_v = cands[k], rc, vv
            return True

        # 1. hash seed 0, no gc knob, no stall, standard profile
        for field, val in (("hashseed", 0), ("gc_auto", None), ("stall", None), ("profile", "std")):
            if best.get(field) != val:
                c = copy.deepcopy(best)
                c[field] = val
                attempt([c])
        # 2. drop whole threads / the warm-up
        changed = True
        while changed:
            changed = False
            cands = []
            if best["warmup"]:
                c = copy.deepcopy(best)
                c["warmup"] = []
                cands.append(c)
            if len(best["threads"]) > 1:
                for t in range(len(best["threads"])):
                    c = copy.deepcopy(best)
                    del c["threads"][t]
                    if c.get("stall") is not None:
                        c["stall"] = None
                    c["schedule"] = None
                    cands.append(c)
            if cands and attempt(cands):
                changed = True
        # 3. drop ops: ddmin over contiguous chunks (halves, quarters, ... single ops),
        #    sixteen candidates per round in parallel; warm-up first, then each thread
        def get_ops(sp, which):
            return sp["warmup"] if which == "warmup" else sp["threads"][which]

        def with_ops(sp, which, new):
            c = copy.deepcopy(sp)
            if which == "warmup":
                c["warmup"] = new
            else:
                c["threads"][which] = new
                c["schedule"] = None
            return c

        for which in ["warmup"] + list(range(len(best["threads"]))):
            n = len(get_ops(best, which))
            chunk = max(1, n // 2)
            while chunk >= 1 and n > 0:
                if self.tried >= self.budget_runs or time.monotonic() > self.t_end:
                    break
                ops = get_ops(best, which)
                n = len(ops)
                cands = []
                starts = list(range(0, n, chunk))
                starts.reverse()  # later ops first: fewer dependants
                for st in starts:
                    new = _cut(ops, st, min(n, st + chunk))
                    if len(new) >= n:
                        continue
                    if not new and which != "warmup" and len(best["threads"]) == 1:
                        continue
                    cands.append(with_ops(best, which, new))
                progressed = False
                for k in range(0, len(cands), 16):
                    if attempt(cands[k : k + 16]):
                        progressed = True
                        break
                if progressed:
                    n = len(get_ops(best, which))
                    chunk = max(1, min(chunk, n // 2)) if n > 1 else 1
                    if n <= 1 and chunk == 1:
                        # try once more to drop the last op, then stop
                        continue
                else:
                    if chunk == 1:
                        break
                    chunk = max(1, chunk // 2)
        # 4. drop faults one by one
        cands = []
        for which in ["warmup"] + list(range(len(best["threads"]))):
            ops = best["warmup"] if which == "warmup" else best["threads"][which]
            for k, o in enumerate(ops):
                for f in ("abort", "io_fault"):
                    if f in o:
                        c = copy.deepcopy(best)
                        tgt = c["warmup"] if which == "warmup" else c["threads"][which]
                        del tgt[k][f]
                        cands.append(c)
        while cands:
            r = self.fails_many(cands[:16])
            if r is None:
                cands = cands[16:]
                continue
            k, rc, vv = r
            best, best_rec, best_v = cands[k], rc, vv
            cands = []
            for which in ["warmup"] + list(range(len(best["threads"]))):
                ops = best["warmup"] if which == "warmup" else best["threads"][which]
                for kk, o in enumerate(ops):
                    for f in ("abort", "io_fault"):
                        if f in o:
                            c = copy.deepcopy(best)
                            tgt = c["warmup"] if which == "warmup" else c["threads"][which]
                            del tgt[kk][f]
                            cands.append(c)
        # 5. schedule: make it explicit, then merge segments
        if len(best["threads"]) > 1:
            c = copy.deepcopy(best)
            c["schedule"] = []  # no pre-emption: clients run one after the other
            if not attempt([c]):
                c = copy.deepcopy(best)
                c["schedule"] = [list(x) for x in best_rec["schedule"]]
                r = self.fails(c)
                if r is not None:
                    best, (best_rec, best_v) = c, r
                    seg = best["schedule"]
                    chunk = max(1, len(seg) // 2)
                    while chunk >= 1 and len(seg) > 1:
                        i = 0
                        progressed = False
                        while i < len(seg):
                            cand = copy.deepcopy(best)
                            cand["schedule"] = _merge(seg[:i] + seg[i + chunk :])
                            r = self.fails(cand)
                            if r is not None:
                                best, (best_rec, best_v) = cand, r
                                seg = best["schedule"]
                                progressed = True
                            else:
                                i += chunk
                            if self.tried >= self.budget_runs or time.monotonic() > self.t_end:
                                break
                        if self.tried >= self.budget_runs or time.monotonic() > self.t_end:
                            break
                        if not progressed or chunk > 1:
                            chunk //= 2
        else:
            best["schedule"] = [list(x) for x in best_rec["schedule"]]
        _prune_texts(best)
        # final confirmation run of exactly what is written out
        r = self.fails(best) if self.tried < self.budget_runs + 5 else None
        if r is None:
            self.budget_runs += 2
            r = self.fails(best)
        if r is not None:
            best_rec, best_v = r
        return best, best_rec, best_v


def _cut(ops, lo, hi):
    out = list(ops)
    for k in range(hi - 1, lo - 1, -1):
        if k < len(out):
            new = _drop_op(out, k)
            if new is not None:
                out = new
    return out


def _merge(seg):
    out = []
    for name, burst in seg:
        if out and out[-1][0] == name:
            out[-1][1] += burst
        else:
            out.append([name, burst])
    return out
