"""Template interpreter ("node").  Started by the coordinator as

    PYTHONHASHSEED=<h> OMP_NUM_THREADS=1 ... /venv/bin/python -m sim.node <repo>

It imports the library under test and all of its dependencies, performs no
library call, and then serves jobs read from stdin (one JSON object per line):
every job is executed in an os.fork() of this pristine process and answered
with one JSON line on stdout.
"""
import sys
import os
import json
import time
import select
import signal
import faulthandler


def _serve(repo):
    from . import engine

    engine.bind(repo)
    import gc

    # pre-fork hygiene: nothing allocated so far is ever looked at by a collection
    # in a child (otherwise the first gc.collect() of every run copies the heap)
    gc.disable()
    gc.collect()
    gc.freeze()
    out = sys.stdout
    out.write(json.dumps({"ready": True, "pid": os.getpid(), "hashseed": os.environ.get("PYTHONHASHSEED")}) + "\n")
    out.flush()
    for line in sys.stdin:
        line = line.strip()
        if not line:
            continue
        job = json.loads(line)
        if job.get("cmd") == "quit":
            break
        if job.get("cmd") == "churn":
            # make this template "busy": allocate and free (fork-position selftest)
            junk = [list(range(i % 97)) for i in range(int(job.get("n", 10000)))]
            del junk
            out.write(json.dumps({"job": job.get("job"), "status": "ok", "record": None}) + "\n")
            out.flush()
            continue
        if len(os.listdir("/proc/self/task")) != 1:
            out.write(json.dumps({"job": job.get("job"), "status": "harness_error", "error": "template is multi-threaded"}) + "\n")
            out.flush()
            continue
        limit = float(job.get("wall_limit", 120))
        r, w = os.pipe()
        t0 = time.monotonic()
        pid = os.fork()
        if pid == 0:
            # ---- child: one run -------------------------------------------
            code = 0
            try:
                os.close(r)
                if job.get("cpu") is not None:
                    try:
                        # all client threads of a run on one core: baton hand-offs
                        # then never wait for a cross-core wake-up
                        os.sched_setaffinity(0, {int(job["cpu"]) % (os.cpu_count() or 1)})
                    except OSError:
                        pass
                faulthandler.enable()
                faulthandler.dump_traceback_later(max(1.0, limit - 2.0), exit=True)
                try:
                    rec = engine.run_spec(job["spec"])
                    payload = {"status": "ok", "record": rec}
                except BaseException as e:  # noqa: BLE001
                    import traceback

                    payload = {"status": "harness_error", "error": "".join(traceback.format_exception(type(e), e, e.__traceback__))[-4000:]}
                data = json.dumps(payload).encode()
                with os.fdopen(w, "wb") as f:
                    f.write(data)
            except BaseException:  # noqa: BLE001
                code = 3
            finally:
                os._exit(code)
        # ---- template: collect the answer ------------------------------------
        os.close(w)
        chunks = []
        status = None
        while True:
            left = limit - (time.monotonic() - t0)
            if left <= 0:
                status = "timeout"
                break
            rl, _, _ = select.select([r], [], [], min(left, 5.0))
            if rl:
                b = os.read(r, 1 << 16)
                if not b:
                    break
                chunks.append(b)
        os.close(r)
        if status == "timeout":
            try:
                os.kill(pid, signal.SIGKILL)
            except ProcessLookupError:
                pass
        _, st = os.waitpid(pid, 0)
        import shutil

        for base in ("/dev/shm", os.environ.get("TMPDIR") or "/tmp"):
            shutil.rmtree(os.path.join(base, f"tucansim-{pid}"), ignore_errors=True)
        if status == "timeout":
            ans = {"job": job.get("job"), "status": "timeout", "error": f"run exceeded {limit}s"}
        else:
            try:
                ans = json.loads(b"".join(chunks).decode())
                ans["job"] = job.get("job")
            except Exception:
                ans = {"job": job.get("job"), "status": "harness_error", "error": f"child died, wait status {st}"}
        ans["wall"] = round(time.monotonic() - t0, 4)
        out.write(json.dumps(ans) + "\n")
        out.flush()


if __name__ == "__main__":
    _serve(sys.argv[1])
